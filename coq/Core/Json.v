(* Data passed to deserialize (pyval), values it builds (value), Python equality.  No proofs. *)
From Coq Require Import List String ZArith Bool Arith Ascii.
Import ListNotations.
Open Scope string_scope.

(* floats: the exact dyadic fragment q/4, plus nan and the infinities *)
Inductive fl := FQ (q : Z) | FNan | FInf (neg : bool).

Inductive pyval :=
| PNone
| PBool (b : bool)
| PInt (z : Z)
| PFloat (f : fl)
| PStr (s : string)
| PList (l : list pyval)
| PDict (l : list (string * pyval))     (* insertion ordered, string keys *)
| POther (tag : string).                (* any object whose class is not a JSON class: tuple, bytes, set, ... ; tag = class name *)

(* classes of data, as used by isinstance / type() dispatch *)
Inductive pcls := CNone | CBool | CInt | CFloat | CStr | CList | CDict | COther.

Definition pcls_eqb (a b : pcls) : bool :=
  match a, b with
  | CNone, CNone | CBool, CBool | CInt, CInt | CFloat, CFloat | CStr, CStr | CList, CList | CDict, CDict
  | COther, COther => true
  | _, _ => false
  end.

Definition cls_of (d : pyval) : pcls :=
  match d with
  | PNone => CNone | PBool _ => CBool | PInt _ => CInt | PFloat _ => CFloat | PStr _ => CStr
  | PList _ => CList | PDict _ => CDict | POther _ => COther
  end.

(* literal / enum values *)
Inductive prim := LNone | LBool (b : bool) | LInt (z : Z) | LStr (s : string).

Inductive value :=
| VNone
| VBool (b : bool)
| VInt (z : Z)
| VFloat (f : fl)
| VStr (s : string)
| VList (l : list value)
| VSet (l : list value)          (* python set: first occurrences, compared as a set *)
| VFrozenSet (l : list value)
| VTuple (l : list value)
| VDict (l : list (value * value))
| VObj (cid : nat) (fs : list (string * value))   (* dataclass / NamedTuple instance, TypedDict: class id + fields by name *)
| VEnum (eid : nat) (p : prim)                    (* enum member, identified by its value *)
| VOther (tag : string)
| VUndefined.                                     (* apischema.Undefined *)

Definition fl_eqb (a b : fl) : bool :=
  match a, b with
  | FQ x, FQ y => Z.eqb x y
  | FNan, FNan => true
  | FInf x, FInf y => Bool.eqb x y
  | _, _ => false
  end.

Definition prim_eqb (a b : prim) : bool :=
  match a, b with
  | LNone, LNone => true
  | LBool x, LBool y => Bool.eqb x y
  | LInt x, LInt y => Z.eqb x y
  | LStr x, LStr y => String.eqb x y
  | _, _ => false
  end.

(* numeric view used by Python's == across bool / int / float *)
Definition num_of (v : value) : option Z :=   (* in quarters *)
  match v with
  | VBool b => Some (if b then 4 else 0)%Z
  | VInt z => Some (4 * z)%Z
  | VFloat (FQ q) => Some q
  | _ => None
  end.

Section ListEq.
  Variable A : Type.
  Variable eqb : A -> A -> bool.
  Fixpoint leqb (l1 l2 : list A) : bool :=
    match l1, l2 with
    | [], [] => true
    | x :: r1, y :: r2 => eqb x y && leqb r1 r2
    | _, _ => false
    end.
End ListEq.
Arguments leqb {A}.

(* structural equality, except that sets are compared as sets (order-insensitive) *)
Fixpoint value_eqb (a b : value) {struct a} : bool :=
  match a, b with
  | VNone, VNone => true
  | VBool x, VBool y => Bool.eqb x y
  | VInt x, VInt y => Z.eqb x y
  | VFloat x, VFloat y => fl_eqb x y
  | VStr x, VStr y => String.eqb x y
  | VList l1, VList l2 => (fix go (l1 l2 : list value) : bool :=
                             match l1, l2 with
                             | [], [] => true
                             | x :: r1, y :: r2 => value_eqb x y && go r1 r2
                             | _, _ => false end) l1 l2
  | VTuple l1, VTuple l2 => (fix go (l1 l2 : list value) : bool :=
                             match l1, l2 with
                             | [], [] => true
                             | x :: r1, y :: r2 => value_eqb x y && go r1 r2
                             | _, _ => false end) l1 l2
  | VSet l1, VSet l2 | VFrozenSet l1, VFrozenSet l2 =>
      Nat.eqb (List.length l1) (List.length l2) &&
      (fix all (l1 : list value) : bool :=
         match l1 with
         | [] => true
         | x :: r1 => existsb (value_eqb x) l2 && all r1
         end) l1
  | VDict l1, VDict l2 =>      (* python dict equality ignores insertion order *)
      Nat.eqb (List.length l1) (List.length l2) &&
      (fix all (l1 : list (value * value)) : bool :=
         match l1 with
         | [] => true
         | (k1, x) :: r1 => existsb (fun kv => value_eqb k1 (fst kv) && value_eqb x (snd kv)) l2 && all r1
         end) l1
  | VObj c1 f1, VObj c2 f2 => Nat.eqb c1 c2 &&
                           (fix go (l1 l2 : list (string * value)) : bool :=
                             match l1, l2 with
                             | [], [] => true
                             | (k1, x) :: r1, (k2, y) :: r2 => String.eqb k1 k2 && value_eqb x y && go r1 r2
                             | _, _ => false end) f1 f2
  | VEnum e1 p1, VEnum e2 p2 => Nat.eqb e1 e2 && prim_eqb p1 p2
  | VOther x, VOther y => String.eqb x y
  | VUndefined, VUndefined => true
  | _, _ => false
  end.

(* Python == (and hash equality) on the hashable values that can be members of a set / keys of a dict *)
Fixpoint py_eq (a b : value) {struct a} : bool :=
  match num_of a, num_of b with
  | Some x, Some y => Z.eqb x y
  | _, _ =>
      match a, b with
      | VNone, VNone => true
      | VStr x, VStr y => String.eqb x y
      | VTuple l1, VTuple l2 => (fix go (l1 l2 : list value) : bool :=
                                 match l1, l2 with
                                 | [], [] => true
                                 | x :: r1, y :: r2 => py_eq x y && go r1 r2
                                 | _, _ => false end) l1 l2
      | VEnum e1 p1, VEnum e2 p2 => Nat.eqb e1 e2 && prim_eqb p1 p2
      | VFloat x, VFloat y => match x, y with FInf s1, FInf s2 => Bool.eqb s1 s2 | _, _ => false end
      | VFrozenSet l1, VFrozenSet l2 =>
          Nat.eqb (List.length l1) (List.length l2) &&
          (fix all (l1 : list value) : bool :=
             match l1 with [] => true | x :: r1 => existsb (py_eq x) l2 && all r1 end) l1
      | VOther t1, VOther t2 => String.eqb t1 t2 && negb (String.eqb t1 "object")   (* the harness' non-JSON objects: equal tuples / bytes / sets are ==, plain objects are not *)
      | _, _ => false
      end
  end.

(* Python == on results: like value_eqb, except that numbers are compared by value (1 == 1.0 == True) *)
Fixpoint value_pyeq (a b : value) {struct a} : bool :=
  match num_of a, num_of b with
  | Some x, Some y => Z.eqb x y
  | _, _ =>
  match a, b with
  | VList l1, VList l2 | VTuple l1, VTuple l2 =>
      (fix go (l1 l2 : list value) : bool :=
         match l1, l2 with
         | [], [] => true
         | x :: r1, y :: r2 => value_pyeq x y && go r1 r2
         | _, _ => false end) l1 l2
  | VSet l1, VSet l2 | VFrozenSet l1, VFrozenSet l2 =>
      Nat.eqb (List.length l1) (List.length l2) &&
      (fix all (l1 : list value) : bool :=
         match l1 with [] => true | x :: r1 => existsb (value_pyeq x) l2 && all r1 end) l1
  | VDict l1, VDict l2 =>
      Nat.eqb (List.length l1) (List.length l2) &&
      (fix all (l1 : list (value * value)) : bool :=
         match l1 with
         | [] => true
         | (k1, x) :: r1 => existsb (fun kv => value_pyeq k1 (fst kv) && value_pyeq x (snd kv)) l2 && all r1
         end) l1
  | VObj c1 f1, VObj c2 f2 =>
      Nat.eqb c1 c2 &&
      (fix go (l1 l2 : list (string * value)) : bool :=
         match l1, l2 with
         | [], [] => true
         | (k1, x) :: r1, (k2, y) :: r2 => String.eqb k1 k2 && value_pyeq x y && go r1 r2
         | _, _ => false end) f1 f2
  | _, _ => value_eqb a b
  end
  end.


Definition value_loose_eqb := value_pyeq.

(* can the value be put in a set / used as a dict key *)
Fixpoint hashable (v : value) : bool :=
  match v with
  | VNone | VBool _ | VInt _ | VFloat _ | VStr _ | VEnum _ _ => true
  | VTuple l => forallb hashable l
  | VFrozenSet _ => true
  | _ => false
  end.

Definition set_add (s : list value) (v : value) : list value :=
  if existsb (py_eq v) s then s else s ++ [v].

Fixpoint dict_set (d : list (value * value)) (k v : value) : list (value * value) :=
  match d with
  | [] => [(k, v)]
  | (k', v') :: r => if py_eq k k' then (k', v) :: r else (k', v') :: dict_set r k v
  end.

(* the datum itself, seen as a result (what a method returning `data` unchanged yields) *)
Fixpoint embed (d : pyval) : value :=
  match d with
  | PNone => VNone
  | PBool b => VBool b
  | PInt z => VInt z
  | PFloat f => VFloat f
  | PStr s => VStr s
  | PList l => VList (map embed l)
  | PDict l => VDict (map (fun kv => (VStr (fst kv), embed (snd kv))) l)
  | POther t => VOther t
  end.

Definition prim_value (p : prim) : value :=
  match p with LNone => VNone | LBool b => VBool b | LInt z => VInt z | LStr s => VStr s end.

Definition prim_cls (p : prim) : pcls :=
  match p with LNone => CNone | LBool _ => CBool | LInt _ => CInt | LStr _ => CStr end.

(* the primitive datum carried by data, if any *)
Definition prim_of (d : pyval) : option prim :=
  match d with
  | PNone => Some LNone | PBool b => Some (LBool b) | PInt z => Some (LInt z) | PStr s => Some (LStr s)
  | _ => None
  end.

Fixpoint dict_get {A} (k : string) (l : list (string * A)) : option A :=
  match l with
  | [] => None
  | (k', v) :: r => if String.eqb k k' then Some v else dict_get k r
  end.

Definition dict_has {A} (k : string) (l : list (string * A)) : bool :=
  match dict_get k l with Some _ => true | None => false end.
