(* Model of apischema/validation/errors.py: ValidationError trees, merge_errors, `errors` flattening.  No proofs. *)
From Coq Require Import List String ZArith Bool Arith Ascii.
From AV Require Import Core.Json Gen.Tables.
Import ListNotations.
Open Scope string_scope.

Inductive ekey := KIdx (n : nat) | KStr (s : string).

Definition ekey_eqb (a b : ekey) : bool :=
  match a, b with
  | KIdx x, KIdx y => Nat.eqb x y
  | KStr x, KStr y => String.eqb x y
  | _, _ => false
  end.

(* order used by ValidationError._errors: integer keys first (numeric), then the others by text *)
Definition ekey_leb (a b : ekey) : bool :=
  match a, b with
  | KIdx x, KIdx y => Nat.leb x y
  | KIdx _, KStr _ => true
  | KStr _, KIdx _ => false
  | KStr x, KStr y => match String.compare x y with Gt => false | _ => true end
  end.

Inductive verr := VE (msgs : list string) (children : list (ekey * verr)).

Definition msgs_of (e : verr) := match e with VE m _ => m end.
Definition children_of (e : verr) := match e with VE _ c => c end.

Definition err_msg (m : string) : verr := VE [m] [].

Fixpoint child_get (k : ekey) (l : list (ekey * verr)) : option verr :=
  match l with
  | [] => None
  | (k', e) :: r => if ekey_eqb k k' then Some e else child_get k r
  end.

(* errors[key] = error  (dict assignment: replaces, keeps position) *)
Fixpoint child_set (l : list (ekey * verr)) (k : ekey) (e : verr) : list (ekey * verr) :=
  match l with
  | [] => [(k, e)]
  | (k', e') :: r => if ekey_eqb k k' then (k', e) :: r else (k', e') :: child_set r k e
  end.

(* merge_errors *)
Fixpoint merge (e1 e2 : verr) {struct e1} : verr :=
  match e1, e2 with
  | VE m1 c1, VE m2 c2 =>
      VE (m1 ++ m2)%list
         ((fix left (c : list (ekey * verr)) : list (ekey * verr) :=
             match c with
             | [] => []
             | (k, e) :: r =>
                 (k, match child_get k c2 with Some e' => merge e e' | None => e end) :: left r
             end) c1
          ++ filter (fun ke => match child_get (fst ke) c1 with Some _ => false | None => true end) c2)%list
  end.

Definition merge_opt (o : option verr) (e : verr) : verr :=
  match o with Some e1 => merge e1 e | None => e end.

Section Sort.
  Variable A : Type.
  Fixpoint insert_by (x : ekey * A) (l : list (ekey * A)) : list (ekey * A) :=
    match l with
    | [] => [x]
    | y :: r => if ekey_leb (fst x) (fst y) then x :: l else y :: insert_by x r
    end.
  Definition sort_by_key (l : list (ekey * A)) : list (ekey * A) := fold_right insert_by [] l.
End Sort.
Arguments sort_by_key {A}.

Definition loc_err := (list ekey * string)%type.

(* ValidationError.errors: own messages, then the children in sorted key order *)
Fixpoint flatten (e : verr) : list loc_err :=
  match e with
  | VE msgs children =>
      (map (fun m => ([], m)) msgs
       ++ flat_map (fun kf => map (fun pm : loc_err => (fst kf :: fst pm, snd pm)) (snd kf))
            (sort_by_key
               ((fix go (c : list (ekey * verr)) : list (ekey * list loc_err) :=
                   match c with
                   | [] => []
                   | (k, e') :: r => (k, flatten e') :: go r
                   end) children)))%list
  end.

Definition is_empty (e : verr) : bool :=
  match e with VE [] [] => true | _ => false end.

(* ---- messages *)
Definition template (name : string) : string :=
  match dict_get name error_templates with Some t => t | None => "<no template " ++ name ++ ">" end.

(* str.format with one positional argument: replaces the first "{}" *)
Fixpoint subst_braces (t arg : string) : string :=
  match t with
  | EmptyString => EmptyString
  | String "{"%char (String "}"%char r) => arg ++ r
  | String c r => String c (subst_braces r arg)
  end.

Definition render (name arg : string) : string := subst_braces (template name) arg.

Definition json_type_of_pcls (c : pcls) : string :=
  let key := match c with
             | CNone => "NoneType" | CBool => "bool" | CInt => "int" | CFloat => "float" | CStr => "str"
             | CList => "list" | CDict => "dict" | COther => "?"
             end in
  match dict_get key json_type_names with Some t => t | None => "<unknown>" end.

(* what _found_type computes for the datum *)
Definition found_type (d : pyval) : string :=
  match d with
  | POther tag => tag
  | _ => json_type_of_pcls (cls_of d)
  end.

Definition bad_type_msg (d : pyval) (expected : pcls) : string :=
  "expected type " ++ json_type_of_pcls expected ++ ", found " ++ found_type d.

Definition bad_type (d : pyval) (expected : list pcls) : verr :=
  VE (map (bad_type_msg d) expected) [].

Definition msg_missing : string := template "missing_property".
Definition msg_unexpected : string := template "unexpected_property".
