(* C10 — Validators run exactly when their inputs are valid; validation terminates. *)
From Coq Require Import List String Bool.
From AV Require Import Small.Validators Small.ValidatorsProofs.
Import ListNotations.

(* `validate` (with its recursive re-run after a discarding failure) terminates and executes exactly the documented
   single pass in declaration order: a validator is skipped iff it depends on a field discarded by an earlier failing one *)
Theorem C10_validate_terminates_and_is_one_pass :
  forall (fails : vdef -> bool) fuel vs, List.length vs < fuel -> validate fails fuel vs = Some (pass fails [] vs).
Proof. exact validate_is_pass. Qed.
Print Assumptions C10_validate_terminates_and_is_one_pass.

(* the gate keeps exactly the validators having a provided input and no invalid input, in declaration order *)
Theorem C10_gate_is_the_runnable_filter :
  forall provided invalid vs, gate provided invalid vs = filter (runnable provided invalid) vs.
Proof. exact gate_spec. Qed.
Print Assumptions C10_gate_is_the_runnable_filter.

Theorem C10_executed_only_if_inputs_valid :
  forall (fails : vdef -> bool) provided invalid vs ex v,
  executed fails provided invalid vs = Some ex -> In v ex -> In v vs /\ runnable provided invalid v = true.
Proof. exact executed_only_if_runnable. Qed.
Print Assumptions C10_executed_only_if_inputs_valid.

(* runnable validators all execute, even when unrelated fields are invalid, as long as nothing is discarded *)
Theorem C10_all_runnable_validators_execute :
  forall (fails : vdef -> bool) provided invalid vs,
  (forall v, In v vs -> fails v = true -> v_discard v = []) ->
  executed fails provided invalid vs = Some (filter (runnable provided invalid) vs).
Proof. exact all_runnable_execute_without_discard. Qed.
Print Assumptions C10_all_runnable_validators_execute.
