(* C01 — Deserialization accepts exactly conforming data and builds the typed value.
   Model: Deser/Model.v (exec, compile); specification: Deser/Spec.v (spec); proofs: Deser/Proofs.v. *)
From Coq Require Import List String ZArith Bool.
From AV Require Import Core.Json Core.Errors Deser.Model Deser.Spec Deser.Loops Deser.Proofs Deser.Examples.
From AV Require Import Gen.Tables Small.ConMerge Small.ConMergeProofs Small.Aggregate Small.AggregateProofs.
Import ListNotations.

(* For every universe of classes / enums, every option record without coercion (coercion is C14), every type of the
   modelled grammar at any nesting depth, every root schema and every datum: the compiled method tree and the
   declarative data model give the same outcome — same accepted value, both reject, or one of them ran out of
   fuel (fuel is only consumed when a class is unfolded).  In particular the compiled tree never crashes. *)
Theorem C01_compiled_deserializer_is_the_data_model :
  forall u o fuel root t d,
  strict_opts o -> wf_univ u o = true -> wf_ty t = true -> union_order_ok t = true -> wf_data d = true ->
  agree (deserialize u o fuel root t d) (spec_deserialize u o fuel root t d).
Proof. exact deserialize_agrees_with_spec. Qed.
Print Assumptions C01_compiled_deserializer_is_the_data_model.

(* accept <-> conforms, returned value = typed image, rejection <-> non-conformance, no crash *)
Theorem C01_accepts_exactly_conforming_data :
  forall u o fuel root t d,
  strict_opts o -> wf_univ u o = true -> wf_ty t = true -> union_order_ok t = true -> wf_data d = true ->
  deserialize u o fuel root t d <> RFuel -> spec_deserialize u o fuel root t d <> SFuel ->
  (forall v, deserialize u o fuel root t d = ROk v <-> spec_deserialize u o fuel root t d = SOk v)
  /\ ((exists e, deserialize u o fuel root t d = RErr e) <-> spec_deserialize u o fuel root t d = SRej)
  /\ (forall w, deserialize u o fuel root t d <> RCrash w).
Proof. exact deserialize_ok_iff. Qed.
Print Assumptions C01_accepts_exactly_conforming_data.

(* the hypotheses are satisfiable by a non-trivial universe (recursive class, aliases, constraints, unions, enum) *)
Theorem C01_hypotheses_satisfiable :
  wf_univ ex_univ ex_opts = true /\ wf_ty ex_ty = true /\ union_order_ok ex_ty = true
  /\ wf_data ex_good = true /\ wf_data ex_bad = true.
Proof. exact ex_wf. Qed.
Print Assumptions C01_hypotheses_satisfiable.

(* Constraints given at several levels of one type (NewType / class schema, nested Annotated, field metadata, per-call schema=)
   are merged by apischema/constraints.py before the method is compiled.  On the table of merge operations regenerated from
   that file on every run: every constraint of the data model is in the table and its merge operation computes the
   conjunction of the two levels (pattern refuses to merge) ... *)
Theorem C01_constraint_merge_table_conjoins :
  map (fun r : string * string * string => fst (fst r)) constraint_merges = expected_names /\ Forall row_ok constraint_merges.
Proof. exact source_merges_conjoin. Qed.
Print Assumptions C01_constraint_merge_table_conjoins.

(* ... hence, for any number of levels, the merged constraint accepts exactly the data every level accepts *)
Theorem C01_merged_levels_accept_the_conjunction :
  forall name al m k f,
  In (name, al, m) constraint_merges -> kind_of name = Some k -> k <> Pat -> merge_op m = Some f ->
  forall (levels : list Z) (b0 x : Z), param_ok k b0 -> Forall (param_ok k) levels ->
  sat k (fold_left f levels b0) x = forallb (fun b => sat k b x) (b0 :: levels).
Proof. exact merged_levels_are_the_conjunction. Qed.
Print Assumptions C01_merged_levels_accept_the_conjunction.

(* AGGREGATE FIELDS (flattened, pattern properties, additional properties).  The key dispatch of ObjectMethod.deserialize, as
   modelled in Small/Aggregate.v, computes the documented partition for every class and every set of keys: a flattened field
   receives its aliases present in the datum; the j-th pattern field the keys that are no property, no flattened alias,
   match its pattern and none of the earlier ones; the additional field (or the list of unexpected properties) the rest. *)
Theorem C01_aggregate_fields_receive_the_documented_keys : forall a keys, dispatch a keys = spec_dispatch a keys.
Proof. exact dispatch_is_spec. Qed.
Print Assumptions C01_aggregate_fields_receive_the_documented_keys.

Theorem C01_aggregate_dispatch_loses_no_key : forall a keys k, In k keys ->
  mem k (known a) = true \/ in_some_flat a k = true
  \/ (exists ms, In ms (snd (fst (spec_dispatch a keys))) /\ In k ms)
  \/ In k (snd (spec_dispatch a keys)).
Proof. exact dispatch_total. Qed.
Print Assumptions C01_aggregate_dispatch_loses_no_key.

(* found while writing the model: before `fix: 2f36014` the known properties included the names of the aggregate fields
   themselves, so that such a key ({'address': 1} for a flattened field `address`) was neither used nor reported *)
Theorem C01_old_known_properties_refuted :
  exists a own keys k,
    In k keys /\ mem k (known a) = false /\ in_some_flat a k = false
    /\ let '(ts, ms, rest) := dispatch (mkAgg (old_known a own) (flats a) (pats a) (has_additional a)) keys in
       ~ In k rest /\ (forall l, In l ts -> ~ In k l) /\ (forall l, In l ms -> ~ In k l).
Proof. exact old_all_aliases_refuted. Qed.
Print Assumptions C01_old_known_properties_refuted.
