From AV Require Import Deser.Model Deser.Spec Deser.Proofs.
Theorem C01_placeholder : True. Proof. exact I. Qed.
Print Assumptions C01_placeholder.
