(* C12 — Conversions compose: a converted type behaves as its source / target. *)
From Coq Require Import List String ZArith Bool.
From AV Require Import Small.Conv Small.ConvProofs.
Import ListNotations.

Theorem C12_single_deserializer_is_composition : forall w f k c d,
  w_reg w (TK k) = [c] -> cv_identity c = false ->
  dexec w (S f) [] (CK k) d =
  match dexec w f [] (cv_source c) d with
  | COk v => if w_fails w (cv_fid c) v then (if cv_catch c then CErr else CRaise "ValueError") else COk (XApp (cv_fid c) v)
  | other => other
  end.
Proof. exact single_deserializer. Qed.
Print Assumptions C12_single_deserializer_is_composition.

Theorem C12_deserializers_tried_in_registration_order : forall w f k c1 c2 d v,
  w_reg w (TK k) = [c1; c2] -> cv_identity c1 = false -> cv_identity c2 = false ->
  dexec w f [] (cv_source c1) d = CErr ->
  dexec w f [] (cv_source c2) d = COk v -> w_fails w (cv_fid c2) v = false ->
  dexec w (S f) [] (CK k) d = COk (XApp (cv_fid c2) v).
Proof. exact second_deserializer_after_rejection. Qed.
Print Assumptions C12_deserializers_tried_in_registration_order.

Theorem C12_first_accepting_deserializer_wins : forall w f k c1 c2 rest d v,
  w_reg w (TK k) = c1 :: c2 :: rest -> cv_identity c1 = false -> cv_identity c2 = false ->
  dexec w f [] (cv_source c1) d = COk v -> w_fails w (cv_fid c1) v = false ->
  dexec w (S f) [] (CK k) d = COk (XApp (cv_fid c1) v).
Proof. exact first_deserializer_wins. Qed.
Print Assumptions C12_first_accepting_deserializer_wins.

Theorem C12_dynamic_conversions_stop_at_object_fields : forall w f c dyn d,
  matching (TO c) dyn = [] -> dexec w (S f) dyn (CObj c) d = dexec w (S f) [] (CObj c) d.
Proof. exact dynamic_stops_at_objects. Qed.
Print Assumptions C12_dynamic_conversions_stop_at_object_fields.

Theorem C12_dynamic_conversions_reach_union_alternatives : forall w f dyn t1 t2 d,
  supp w f dyn t1 = true -> supp w f dyn t2 = true ->
  dexec w (S f) dyn (CUnion [t1; t2]) d =
  match dexec w f dyn t1 d with CErr => (match dexec w f dyn t2 d with CErr => CErr | other => other end) | other => other end.
Proof. exact dynamic_reaches_union_alternatives. Qed.
Print Assumptions C12_dynamic_conversions_reach_union_alternatives.

Theorem C12_identity_bypasses_registered_conversion : forall w f c idc d v,
  cv_identity idc = true -> dexec w (S f) [idc] (CObj c) d = COk v -> exists fs, v = XObj c fs.
Proof. exact identity_bypasses_registered. Qed.
Print Assumptions C12_identity_bypasses_registered_conversion.
