(* C14 — Coercion only widens acceptance, per the documented table. *)
From Coq Require Import List String ZArith Bool.
From AV Require Import Core.Json Core.Errors Gen.Tables Deser.Model Deser.Coerce.
Import ListNotations.

(* the word table and the none-values found in the source NOW are the documented ones *)
Theorem C14_table_is_the_documented_one : str_to_bool = documented_bool_words /\ str_none_values = [""%string].
Proof. exact coerce_table_documented. Qed.
Print Assumptions C14_table_is_the_documented_one.

(* the coercer converts nothing but a primitive datum into a primitive of the expected class *)
Theorem C14_only_primitive_conversions :
  forall cls d d', coerce cls d = inl d' ->
  d' = d \/ (is_prim_data d = true /\ is_prim_data d' = true /\ isinstance d' cls = true).
Proof. exact coerce_only_primitives. Qed.
Print Assumptions C14_only_primitive_conversions.

(* the coerced datum is still checked by the method of the expected type; a refused coercion is a ValidationError *)
Theorem C14_coerced_result_still_checked :
  forall u o fuel cls m d v,
  exec u o fuel (MCoerce cls m) d = ROk v -> exists d', coerce cls d = inl d' /\ exec u o fuel m d' = ROk v.
Proof. exact coerced_result_is_checked. Qed.
Print Assumptions C14_coerced_result_still_checked.

Theorem C14_refused_coercion_is_validation_error :
  forall u o fuel cls m d,
  (forall d', coerce cls d <> inl d') -> exec u o fuel (MCoerce cls m) d = RErr (bad_type d [cls]).
Proof. exact refused_coercion_is_a_validation_error. Qed.
Print Assumptions C14_refused_coercion_is_validation_error.

(* monotonicity, primitive types with arbitrary constraints (partial: containers / objects are covered by the
   correspondence only): strict acceptance implies coerced acceptance with the same value *)
Theorem C14_monotone_on_primitives_partial :
  forall u o fuel acc t d v,
  prim_ty t = true ->
  exec u (mkO (o_addprops o) false (o_fallback o) (o_nocopy o) (o_aliaser o)) fuel
       (compile (mkO (o_addprops o) false (o_fallback o) (o_nocopy o) (o_aliaser o)) acc t) d = ROk v ->
  exec u (mkO (o_addprops o) true (o_fallback o) (o_nocopy o) (o_aliaser o)) fuel
       (compile (mkO (o_addprops o) true (o_fallback o) (o_nocopy o) (o_aliaser o)) acc t) d = ROk v.
Proof. exact coerce_monotone_primitives. Qed.
Print Assumptions C14_monotone_on_primitives_partial.
