(* C07 — Serialized data validates against serialization_schema. *)
From Coq Require Import List String ZArith Bool.
From AV Require Import Core.Json Deser.Model Schema.Json Schema.Build Schema.Proofs.
Import ListNotations.

(* the union schema accepts whatever one of the alternatives' schemas accepts: the serialized form of a union value,
   produced by one alternative, is never rejected by the merged schema *)
Theorem C07_union_schema_accepts_each_alternative : forall ss ds fuel rs d r,
  rs <> [] ->
  (forall r, In r rs -> get_type r <> None -> typed_shape r = true) ->
  In r rs -> jvalid ss ds fuel r d = true -> jvalid ss ds fuel (visited_union rs) d = true.
Proof.
  intros ss ds fuel rs d r Hne Hs Hin Hv. rewrite visited_union_valid by assumption.
  apply existsb_exists. exists r. split; assumption.
Qed.
Print Assumptions C07_union_schema_accepts_each_alternative.
