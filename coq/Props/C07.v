(* C07 — Serialized data validates against serialization_schema. *)
From Coq Require Import List String ZArith Bool.
From AV Require Import Core.Json Deser.Model Deser.Spec Ser.Model Ser.Spec Ser.RoundTrip Ser.RoundTripInd Schema.Json Schema.Build Schema.Proofs
  Schema.AgreeProofs Schema.SerAgree Schema.BuildSer Schema.RefAgree Schema.SerClassProofs.
Import ListNotations.

(* the union schema accepts whatever one of the alternatives' schemas accepts: the serialized form of a union value,
   produced by one alternative, is never rejected by the merged schema *)
Theorem C07_union_schema_accepts_each_alternative : forall ss ds fuel rs d r,
  rs <> [] ->
  (forall r, In r rs -> get_type r <> None -> typed_shape r = true) ->
  In r rs -> jvalid ss ds fuel r d = true -> jvalid ss ds fuel (visited_union rs) d = true.
Proof.
  intros ss ds fuel rs d r Hne Hs Hin Hv. rewrite visited_union_valid by assumption.
  apply existsb_exists. exists r. split; assumption.
Qed.
Print Assumptions C07_union_schema_accepts_each_alternative.

(* THE STATEMENT on the object-free fragment.  For every universe, options, reference set and definitions (those the builder
   emits for enums), every type built from primitives, List, Tuple, Dict[str, X], Literal, Enum and unions whose alternatives
   accept disjoint classes of JSON data, and every well-typed value: serialization (the specification `image`, tied to the
   code by C04) produces JSON data, and on the common semantic domain that data validates, under standard JSON Schema
   semantics, against the schema the builder generates for the type (tied to serialization_schema by the run: for these types
   the implementation's serialization schema is structurally the model's schema).
   Proof: the round-trip theorem (C05) composed with the schema / deserializer agreement (C06). *)
Theorem C07_object_free_output_validates :
  forall u (so : sopts) refs ds,
  (forall e, refs (ename_ e) = true -> def_lookup (ename_ e) ds = Some (literal_schema (get_enum u e))) ->
  forall n bf ign t v,
  rt_ty u t = true -> no_obj t = true -> has_type u n t v = true -> canonical u v = true ->
  obj_free t = true -> wf_con t = true -> con_mergeable u (dopts_of so) refs bf ign t = true -> keys_ok u t = true ->
  exists j d, image u so (S n) t v = SROk j /\ unembed j = Some d /\
              (in_domain d = true -> jvalid false ds 0 (build u (dopts_of so) refs bf ign t) d = true).
Proof. exact serialized_output_validates. Qed.
Print Assumptions C07_object_free_output_validates.

Theorem C07_hypotheses_satisfiable :
  let u := mkU [] [[LInt 1; LStr "x"]] in
  let so := mkSO false false false true false false false false false false (fun s => s) in
  let t := TColl KList (TUnion [TInt; TMap TStr (TTuple [TEnum 0; TBool]); TNone]) in
  let v := VList [VInt 3; VDict [(VStr "k", VTuple [VEnum 0 (LStr "x"); VBool true])]; VNone] in
  rt_ty u t = true /\ no_obj t = true /\ has_type u 1 t v = true /\ canonical u v = true /\ obj_free t = true /\ wf_con t = true
  /\ con_mergeable u (dopts_of so) (fun _ => false) 0 false t = true /\ keys_ok u t = true.
Proof. exact serialized_output_validates_ex. Qed.
Print Assumptions C07_hypotheses_satisfiable.

(* CLASSES.  Schema/BuildSer.v models SerializationSchemaBuilder itself (properties = fields and serialized methods in order(),
   required = what the serializer cannot skip, dependentRequired restricted to those) and the run compares it structurally with
   serialization_schema on every generated case.  For dataclasses / NamedTuples of the round-trip fragment (no skip option, no
   exclude_* setting, declaration order), nested to any depth in containers, unions and other classes, given inline or through $ref + $defs: what
   serialization produces validates against the schema and definitions of that model.  Obtained by instantiating the
   invariant theorem of Ser/ImageInv.v (if a property of (type, produced datum) is established by every way of producing
   data, it holds of the image of every well-typed value) with "validates against build_ser". *)
Theorem C07_output_validates_with_classes :
  forall u so t n jf v,
  ser_hyps u so t n jf v = true ->
  exists j d, image u so (S n) t v = SROk j /\ unembed j = Some d /\
              (dd d <= jf -> in_domain d = true ->
               jvalid false (snd (model_ser_schema u so false t)) jf (fst (model_ser_schema u so false t)) d = true).
Proof. exact serialized_output_validates_checked. Qed.
Print Assumptions C07_output_validates_with_classes.

Theorem C07_class_hypotheses_satisfiable :
  refs_of_ser ser_ex_univ false (TObj 2) = ["C0"; "E0"]%string /\ ser_hyps ser_ex_univ ser_ex_opts (TObj 2) 3 12 ser_ex_value = true.
Proof. exact ser_ex. Qed.
Print Assumptions C07_class_hypotheses_satisfiable.
