(* C07 — Serialized data validates against serialization_schema. *)
From Coq Require Import List String ZArith Bool.
From AV Require Import Core.Json Deser.Model Deser.Spec Ser.Model Ser.Spec Ser.RoundTrip Ser.RoundTripInd Schema.Json Schema.Build Schema.Proofs
  Schema.AgreeProofs Schema.SerAgree Schema.BuildSer Schema.RefAgree Schema.SerClassProofs Schema.SerRequired Schema.ImageInvGen Schema.SerClassGen Ser.CompileProofs.
Import ListNotations.

(* the union schema accepts whatever one of the alternatives' schemas accepts: the serialized form of a union value,
   produced by one alternative, is never rejected by the merged schema *)
Theorem C07_union_schema_accepts_each_alternative : forall ss ds fuel rs d r,
  rs <> [] ->
  (forall r, In r rs -> get_type r <> None -> typed_shape r = true) ->
  In r rs -> jvalid ss ds fuel r d = true -> jvalid ss ds fuel (visited_union rs) d = true.
Proof.
  intros ss ds fuel rs d r Hne Hs Hin Hv. rewrite visited_union_valid by assumption.
  apply existsb_exists. exists r. split; assumption.
Qed.
Print Assumptions C07_union_schema_accepts_each_alternative.

(* THE STATEMENT on the object-free fragment.  For every universe, options, reference set and definitions (those the builder
   emits for enums), every type built from primitives, List, Tuple, Dict[str, X], Literal, Enum and unions whose alternatives
   accept disjoint classes of JSON data, and every well-typed value: serialization (the specification `image`, tied to the
   code by C04) produces JSON data, and on the common semantic domain that data validates, under standard JSON Schema
   semantics, against the schema the builder generates for the type (tied to serialization_schema by the run: for these types
   the implementation's serialization schema is structurally the model's schema).
   Proof: the round-trip theorem (C05) composed with the schema / deserializer agreement (C06). *)
Theorem C07_object_free_output_validates :
  forall u (so : sopts) refs ds,
  (forall e, refs (ename_ e) = true -> def_lookup (ename_ e) ds = Some (literal_schema (get_enum u e))) ->
  forall n bf ign t v,
  rt_ty u t = true -> no_obj t = true -> has_type u n t v = true -> canonical u v = true ->
  obj_free t = true -> wf_con t = true -> con_mergeable u (dopts_of so) refs bf ign t = true -> keys_ok u t = true ->
  exists j d, image u so (S n) t v = SROk j /\ unembed j = Some d /\
              (in_domain d = true -> jvalid false ds 0 (build u (dopts_of so) refs bf ign t) d = true).
Proof. exact serialized_output_validates. Qed.
Print Assumptions C07_object_free_output_validates.

Theorem C07_hypotheses_satisfiable :
  let u := mkU [] [[LInt 1; LStr "x"]] in
  let so := mkSO false false false true false false false false false false (fun s => s) in
  let t := TColl KList (TUnion [TInt; TMap TStr (TTuple [TEnum 0; TBool]); TNone]) in
  let v := VList [VInt 3; VDict [(VStr "k", VTuple [VEnum 0 (LStr "x"); VBool true])]; VNone] in
  rt_ty u t = true /\ no_obj t = true /\ has_type u 1 t v = true /\ canonical u v = true /\ obj_free t = true /\ wf_con t = true
  /\ con_mergeable u (dopts_of so) (fun _ => false) 0 false t = true /\ keys_ok u t = true.
Proof. exact serialized_output_validates_ex. Qed.
Print Assumptions C07_hypotheses_satisfiable.

(* CLASSES.  Schema/BuildSer.v models SerializationSchemaBuilder itself (properties = fields and serialized methods in order(),
   required = what the serializer cannot skip, dependentRequired restricted to those) and the run compares it structurally with
   serialization_schema on every generated case.  For dataclasses / NamedTuples of the round-trip fragment (no skip option, no
   exclude_* setting, declaration order), nested to any depth in containers, unions and other classes, given inline or through $ref + $defs: what
   serialization produces validates against the schema and definitions of that model.  Obtained by instantiating the
   invariant theorem of Ser/ImageInv.v (if a property of (type, produced datum) is established by every way of producing
   data, it holds of the image of every well-typed value) with "validates against build_ser". *)
Theorem C07_output_validates_with_classes :
  forall u so t n jf v,
  ser_hyps u so t n jf v = true ->
  exists j d, image u so (S n) t v = SROk j /\ unembed j = Some d /\
              (dd d <= jf -> in_domain d = true ->
               jvalid false (snd (model_ser_schema u so false t)) jf (fst (model_ser_schema u so false t)) d = true).
Proof. exact serialized_output_validates_checked. Qed.
Print Assumptions C07_output_validates_with_classes.

Theorem C07_class_hypotheses_satisfiable :
  refs_of_ser ser_ex_univ false (TObj 2) = ["C0"; "E0"]%string /\ ser_hyps ser_ex_univ ser_ex_opts (TObj 2) 3 12 ser_ex_value = true.
Proof. exact ser_ex. Qed.
Print Assumptions C07_class_hypotheses_satisfiable.

(* EVERY CLASS.  `required` is decided in the schema builder (ObjectField.skippable; Schema/BuildSer.v: elem_required) and
   the omission is decided again, field by field, in the serializer (Ser/Spec.v: omitted).  For every combination of
   skip(...) option, kind of default (none / None / Undefined / a value), Optional / Undefined union, none_as_undefined,
   exclude_none, exclude_defaults, TypedDict totality and serialized method: a field the schema requires is never omitted. *)
Theorem C07_required_field_never_omitted : forall o cd obj fd xv,
  (so_excl_unset o && cd_fields_set cd)%bool = false ->                       (* no unset-tracking *)
  elem_required o cd (EField fd) = true ->
  (is_typed_dict cd = false -> xv = VUndefined -> fs_undefined (fd_ser fd) = true) ->     (* typing of Undefined *)
  omitted o cd obj fd (Some xv) = false.
Proof. exact required_field_never_omitted. Qed.
Print Assumptions C07_required_field_never_omitted.

(* and for whole objects, whatever the order(), the methods and the additional properties of a TypedDict: the `required`
   keyword of the schema model holds of what serialization produces for every well-typed instance, and every emitted key
   is one of its `properties` (so `additionalProperties: false` holds) *)
Theorem C07_required_keys_always_emitted_and_emitted_keys_declared : forall u o n m c v out ds,
  image u o (S m) (TObj c) v = SROk (VDict out) -> unembed_items out = Some ds ->
  has_type u (S n) (TObj c) v = true ->
  (so_excl_unset o && cd_fields_set (get_cls u c))%bool = false ->
  let cd := get_cls u c in
  let es := elems_of cd in
  required_ok (map (elem_alias o) (filter (elem_required o cd) es)) (PDict ds) = true
  /\ ((is_typed_dict cd && so_addprops o)%bool = false ->
      forallb (fun kd => existsb (String.eqb (fst kd)) (map (elem_alias o) es)) ds = true).
Proof. exact serialization_required_and_additional_hold. Qed.
Print Assumptions C07_required_keys_always_emitted_and_emitted_keys_declared.

Theorem C07_required_hypotheses_satisfiable :
  exists out ds,
    image cc_ex_univ cc_ex_opts 5 (TObj 0) cc_ex_value = SROk (VDict out) /\ unembed_items out = Some ds
    /\ has_type cc_ex_univ 5 (TObj 0) cc_ex_value = true
    /\ (so_excl_unset cc_ex_opts && cd_fields_set (get_cls cc_ex_univ 0))%bool = false
    /\ map (elem_alias cc_ex_opts) (filter (elem_required cc_ex_opts (get_cls cc_ex_univ 0)) (elems_of (get_cls cc_ex_univ 0)))
       = ["p_v"; "p_pos"; "p_extra"; "p_size"]%string
    /\ map (elem_alias cc_ex_opts) (elems_of (get_cls cc_ex_univ 0)) = ["p_v"; "p_nextNode"; "p_tags"; "p_pos"; "p_extra"; "p_size"]%string
    /\ map fst ds = ["p_v"; "p_nextNode"; "p_tags"; "p_pos"; "p_extra"; "p_size"]%string.
Proof. exact required_ex. Qed.
Print Assumptions C07_required_hypotheses_satisfiable.

(* EVERY SERIALIZATION OPTION.  For dataclasses / NamedTuples given inline whose fields carry any skip(...) option, any kind of
   default, none_as_undefined, an Undefined union, under exclude_none / exclude_defaults, with any order() and serialized
   methods returning primitives: what serialization produces validates against the schema of the builder model.  The
   image invariant is proved again for objects that hold a *subset* of their properties (Schema/ImageInvGen.v): each
   emitted key belongs to exactly one element and carries a valid datum, the keys are distinct, every required element is
   present (Schema/SerRequired.v). *)
Theorem C07_output_validates_under_every_serialization_option :
  forall u so t n jf v,
  gen_hyps u so t n v = true ->
  exists j d, image u so (S n) t v = SROk j /\ unembed j = Some d /\
              (in_domain d = true ->
               jvalid false (snd (model_ser_schema u so false t)) jf (fst (model_ser_schema u so false t)) d = true).
Proof. exact serialized_output_validates_all_options_checked. Qed.
Print Assumptions C07_output_validates_under_every_serialization_option.

(* ... and with classes used several times, given through $ref + $defs (the validator's fuel only has to exceed the nesting of
   objects in the produced datum) *)
Theorem C07_output_validates_under_every_serialization_option_with_refs :
  forall u so t n jf v,
  gen_hyps_refs u so t n v = true ->
  exists j d, image u so (S n) t v = SROk j /\ unembed j = Some d /\
              (dd d <= jf -> in_domain d = true ->
               jvalid false (snd (model_ser_schema u so false t)) jf (fst (model_ser_schema u so false t)) d = true).
Proof. exact serialized_output_validates_all_options_refs_checked. Qed.
Print Assumptions C07_output_validates_under_every_serialization_option_with_refs.

Theorem C07_every_option_with_refs_hypotheses_satisfiable :
  refs_of_ser gen_ex_univ2 false (TObj 1) = ["C0"]%string /\ gen_hyps_refs gen_ex_univ2 gen_ex_opts (TObj 1) 3 gen_ex_value2 = true
  /\ gen_hyps gen_ex_univ2 gen_ex_opts (TObj 1) 3 gen_ex_value2 = false.
Proof. exact gen_ex2. Qed.
Print Assumptions C07_every_option_with_refs_hypotheses_satisfiable.

(* satisfiable where the first class theorem does not apply: a skipped default, a dropped None, an Undefined union and a
   serialized method under exclude_defaults; the second line holds five properties, the first only two *)
Theorem C07_every_option_hypotheses_satisfiable :
  gen_hyps gen_ex_univ gen_ex_opts (TObj 1) 3 gen_ex_value = true
  /\ ser_hyps gen_ex_univ gen_ex_opts (TObj 1) 3 12 gen_ex_value = false
  /\ exists j, image gen_ex_univ gen_ex_opts 4 (TObj 1) gen_ex_value = SROk j
               /\ unembed j = Some (PDict [("p_lines", PList [PDict [("p_sku", PStr "x"); ("p_total", PInt 3)];
                                                               PDict [("p_sku", PStr "y"); ("p_quantity", PInt 2); ("p_note", PStr "n");
                                                                      ("p_tag", PStr "t"); ("p_total", PInt 3)]])]%string).
Proof. exact gen_ex. Qed.
Print Assumptions C07_every_option_hypotheses_satisfiable.
