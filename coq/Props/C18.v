(* C18 — Schema dialect conversion preserves the set of valid instances. *)
From Coq Require Import List String ZArith Bool.
From AV Require Import Core.Json Deser.Model Schema.Json Schema.Versions Schema.VersionsProofs Schema.Oas30Proofs.
Open Scope string_scope.
Import ListNotations.

(* for every schema (any keywords, any nesting, any definitions, recursive or not) and every datum, the draft 2019-09
   rendering (prefixItems -> array-form items, items -> additionalItems) accepts exactly what the 2020-12 schema accepts *)
Theorem C18_draft_2019_09_same_instances : forall ss ds fuel s d,
  jvalid_v V2019 ss (convert_defs V2019 ds) fuel (convert V2019 s) d = jvalid ss ds fuel s d.
Proof. exact convert_2019_preserves. Qed.
Print Assumptions C18_draft_2019_09_same_instances.

(* draft-07 (dependencies, "$ref" isolated in allOf), validated under draft-07's own rule that "$ref" excludes its siblings *)
Theorem C18_draft_7_same_instances : forall ss ds fuel s d,
  jvalid_v V7 ss (convert_defs V7 ds) fuel (convert V7 s) d = jvalid ss ds fuel s d.
Proof. exact convert_7_preserves. Qed.
Print Assumptions C18_draft_7_same_instances.

(* after the draft-07 conversion no "$ref" has a sibling, at any nesting level *)
Theorem C18_draft_7_ref_has_no_sibling : forall s, ref_exclusive (convert V7 s) = convert V7 s.
Proof. exact ref_exclusive_convert7. Qed.
Print Assumptions C18_draft_7_ref_has_no_sibling.

(* OpenAPI 3.1 and 2020-12 itself: no conversion *)
Theorem C18_identity_versions : forall ss ds fuel s d v, v = V2020 \/ v = VOAS31 ->
  jvalid ss (convert_defs v ds) fuel (convert v s) d = jvalid ss ds fuel s d.
Proof. exact convert_identity_versions. Qed.
Print Assumptions C18_identity_versions.

(* OpenAPI 3.0, under its own rules ("nullable": true lets null through, "$ref" excludes its siblings): exactly the instances
   of the 2020-12 schema, for every schema and definitions that meet, at every node, the executable side conditions of
   Schema/Oas30Proofs.v: (a) no keyword the dialect cannot express is dropped (dependentRequired, propertyNames, items after
   prefixItems); (b) a schema object has one "type" keyword; (c) where null moves to "nullable" (a {"type": "null"}
   alternative of anyOf, null in a list-valued type), the sibling keywords accept null.  For every datum and every fuel. *)
Theorem C18_openapi_3_0_same_instances : forall ss ds fuel s d,
  forallb okd30 (map snd ds) = true -> ok30 s = true ->
  jvalid_v VOAS30 ss (convert_defs VOAS30 ds) fuel (convert VOAS30 s) d = jvalid ss ds fuel s d.
Proof. exact convert_oas30_preserves. Qed.
Print Assumptions C18_openapi_3_0_same_instances.

Theorem C18_openapi_3_0_ref_has_no_sibling : forall s, ref_exclusive (convert VOAS30 s) = convert VOAS30 s.
Proof. exact oas30_ref_has_no_sibling. Qed.
Print Assumptions C18_openapi_3_0_ref_has_no_sibling.

(* the side conditions hold of a schema with Optional, a multi-typed union, a nullable enum and a "$ref" with a sibling;
   they fail where a tuple's "items" would be dropped *)
Theorem C18_openapi_3_0_hypotheses_satisfiable :
  ok30 oas30_ex = false /\
  ok30 (JS [KwProperties [("a", JS [KwAnyOf [JS [KwType [JInteger]]; JS [KwType [JNull]]]; KwAnnot "default"]);
                          ("b", JS [KwType [JInteger; JString]; KwCon (KMinLen 1)]);
                          ("c", JS [KwType [JString; JNull]; KwEnum [LStr "x"; LNone]]);
                          ("d", JS [KwRef false "D"; KwAnnot "description"])]]) = true.
Proof. exact oas30_ex_ok. Qed.
Print Assumptions C18_openapi_3_0_hypotheses_satisfiable.

(* found while proving: the conversion before `fix: edf635c` merged a list-valued type into an existing anyOf and dropped a
   const standing beside an enum; the proof needed two more side conditions, and these witnesses violate them *)
Theorem C18_old_openapi_3_0_conversion_refuted :
  (exists K d, jvalid false [] 3 (JS (old_top_oas30 K)) d = true /\ jvalid false [] 3 (JS K) d = false)
  /\ (exists K d, jvalid false [] 3 (JS (old_top_oas30 K)) d = true /\ jvalid false [] 3 (JS K) d = false /\ has_enum K = true).
Proof. exact oas30_old_conversion_refuted. Qed.
Print Assumptions C18_old_openapi_3_0_conversion_refuted.
