(* C18 — Schema dialect conversion preserves the set of valid instances. *)
From Coq Require Import List String ZArith Bool.
From AV Require Import Core.Json Deser.Model Schema.Json Schema.Versions Schema.VersionsProofs.
Import ListNotations.

(* for every schema (any keywords, any nesting, any definitions, recursive or not) and every datum, the draft 2019-09
   rendering (prefixItems -> array-form items, items -> additionalItems) accepts exactly what the 2020-12 schema accepts *)
Theorem C18_draft_2019_09_same_instances : forall ss ds fuel s d,
  jvalid_v V2019 ss (convert_defs V2019 ds) fuel (convert V2019 s) d = jvalid ss ds fuel s d.
Proof. exact convert_2019_preserves. Qed.
Print Assumptions C18_draft_2019_09_same_instances.

(* draft-07 (dependencies, "$ref" isolated in allOf), validated under draft-07's own rule that "$ref" excludes its siblings *)
Theorem C18_draft_7_same_instances : forall ss ds fuel s d,
  jvalid_v V7 ss (convert_defs V7 ds) fuel (convert V7 s) d = jvalid ss ds fuel s d.
Proof. exact convert_7_preserves. Qed.
Print Assumptions C18_draft_7_same_instances.

(* after the draft-07 conversion no "$ref" has a sibling, at any nesting level *)
Theorem C18_draft_7_ref_has_no_sibling : forall s, ref_exclusive (convert V7 s) = convert V7 s.
Proof. exact ref_exclusive_convert7. Qed.
Print Assumptions C18_draft_7_ref_has_no_sibling.

(* OpenAPI 3.1 and 2020-12 itself: no conversion *)
Theorem C18_identity_versions : forall ss ds fuel s d v, v = V2020 \/ v = VOAS31 ->
  jvalid ss (convert_defs v ds) fuel (convert v s) d = jvalid ss ds fuel s d.
Proof. exact convert_identity_versions. Qed.
Print Assumptions C18_identity_versions.
