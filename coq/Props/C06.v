(* C06 — deserialize and deserialization_schema agree on what is valid. *)
From Coq Require Import List String ZArith Bool.
From AV Require Import Schema.DepReqAgree Schema.ObjAgree Schema.NestAgree Schema.RefAgree Core.Json Deser.Model Deser.Spec Schema.Json Schema.Build Schema.Proofs Schema.ConProofs Schema.ShapeProofs.
Import ListNotations.

(* a Literal / Enum schema accepts exactly the listed values (on the common domain: no integer-valued float) *)
Theorem C06_literal_schema : forall vs d, in_domain d = true ->
  jvalid false [] 0 (literal_schema vs) d = existsb (fun p => json_eq (prim_data p) d) vs.
Proof. exact literal_schema_valid. Qed.
Print Assumptions C06_literal_schema.

(* the schema built for a union (SchemaBuilder._visited_union: single alternative, Any absorbing, merged "type" lists with
   integer dropped next to number, null merged into a typed schema without const / enum, anyOf otherwise) accepts exactly
   the data accepted by the schema of one of the alternatives - for any definitions, fuel and alternatives of the shapes
   the builder produces *)
Theorem C06_union_schema_is_the_disjunction : forall ss ds fuel rs d,
  rs <> [] ->
  (forall r, In r rs -> get_type r <> None -> typed_shape r = true) ->
  jvalid ss ds fuel (visited_union rs) d = existsb (fun r => jvalid ss ds fuel r d) rs.
Proof. exact visited_union_valid. Qed.
Print Assumptions C06_union_schema_is_the_disjunction.

(* the merge used before the fix 'schema of Optional[Literal/Enum] accepts null' is refuted *)
Theorem C06_old_optional_merge_refuted :
  exists a b d, typed_shape a = true /\ typed_shape b = true /\
    jvalid false [] 0 (old_optional_merge a b) d <> (jvalid false [] 0 a d || jvalid false [] 0 b d).
Proof. exact old_optional_merge_refuted. Qed.
Print Assumptions C06_old_optional_merge_refuted.

(* the schema built for Union[t1..tn] accepts exactly the data accepted by the schema built for one of the ti: every
   universe, options, reference set, definitions, nesting depth, datum (the builder's outputs have the shape the union
   lemma needs: build_shape) *)
Theorem C06_union_type_schema : forall u o refs ss ds f fuel ign ts d,
  ts <> [] ->
  jvalid ss ds f (build u o refs fuel ign (TUnion ts)) d
  = existsb (fun t => jvalid ss ds f (build u o refs fuel false t) d) ts.
Proof. exact union_type_schema. Qed.
Print Assumptions C06_union_type_schema.

(* full_schema(base, constraints): the constrained schema accepts exactly what the base schema and each constraint accept,
   each constraint under the applicability rule of its keyword; multipleOf / pattern must not meet one of their kind *)
Theorem C06_constraints_are_conjoined : forall ss ds fuel c kws d,
  nullable kws = false -> mergeable_into (all_cons c) kws = true ->
  jvalid ss ds fuel (apply_con (Some c) (JS kws)) d
  = jvalid ss ds fuel (JS kws) d && forallb (fun k => con_valid k d) (all_cons c).
Proof. exact apply_con_valid. Qed.
Print Assumptions C06_constraints_are_conjoined.

From AV Require Import Schema.AgreeProofs.

(* THE statement of C06 on the object-free fragment, by induction on the type: for every universe (enums), options, reference
   set and definitions giving the extracted enums their schema, every type built from primitives, Any, collections, tuples,
   mappings, Literal, Enum, Annotated constraints and unions at any nesting depth, and every datum of the common domain, the
   schema built by the model of deserialization_schema accepts the datum exactly when the specification of deserialization
   does.  Side conditions: Annotated does not wrap a Literal / Enum (plain), multipleOf / pattern are not stacked (chain_ok,
   con_mergeable), mapping keys are string-typed (keys_ok). *)
Theorem C06_schema_accepts_iff_deserializer_accepts_object_free :
  forall u o refs ds,
  (forall e, refs (ename_ e) = true -> def_lookup (ename_ e) ds = Some (literal_schema (get_enum u e))) ->
  forall jf fuel bf t ign d,
  obj_free t = true -> wf_con t = true -> con_mergeable u o refs bf ign t = true -> keys_ok u t = true -> in_domain d = true ->
  jvalid false ds jf (build u o refs bf ign t) d = accepts (spec u o fuel None t d).
Proof. exact frag_agree. Qed.
Print Assumptions C06_schema_accepts_iff_deserializer_accepts_object_free.

(* the hypotheses are satisfiable: a nested type with constraints, a union, a mapping with constrained keys, an enum *)
Example C06_hypotheses_satisfiable :
  let u := mkU [] [[LInt 1; LStr "x"]] in
  let o := mkO false false false true (fun s => s) in
  let t := TColl KList (TUnion [TCon (mkC (Some (CI 0)) None None None None None None None None None false None None) TInt;
                                TMap (TCon (mkC None None None None None (Some 1) None None None None false None None) TStr) (TTuple [TEnum 0; TFloat]);
                                TNone]) in
  let d := PList [PInt 3; PDict [("k", PList [PStr "x"; PInt 2])]; PNone] in
  obj_free t = true /\ wf_con t = true /\ con_mergeable u o (fun _ => false) 0 false t = true /\ keys_ok u t = true /\ in_domain d = true
  /\ jvalid false [] 0 (build u o (fun _ => false) 0 false t) d = true.
Proof. vm_compute. repeat split. Qed.

(* CLASSES.  The same statement for types containing dataclasses / NamedTuples / TypedDicts at any depth -- inside containers,
   unions, other classes -- whether the builder gives them inline or through "$ref" + "$defs" (classes used several times,
   recursive classes), against the schema AND the definitions the builder itself emits.  The recursion of the validator through
   the references and of the deserializer through the classes both follow the data: the proof is by induction on the nesting of
   objects in the datum, then on the type, and the fuels of the two interpreters only need to exceed that nesting.
   Conditions (ref_hyps, all executable and evaluated by the run on every case): no fall_back_on_default,
   dependent_required over declared fields (then the `dependentRequired` keyword is exactly the "required by" rule of the
   specification: C06_dependent_required_keyword_is_the_spec_rule), order() keeps the declaration order, Annotated and mapping keys over object-free types, the
   object-free side conditions on every field type, every extracted reference names a listed class or enum. *)
Theorem C06_schema_accepts_iff_deserializer_accepts_with_classes :
  forall u o names classes enums mD n jf sf ign t d,
  ref_hyps u o names classes enums mD n jf sf ign t d = true ->
  jvalid false (defs_for u o (refs_pred names) (S mD) classes enums) jf (build u o (refs_pred names) n ign t) d
  = accepts (spec u o sf None t d).
Proof. exact ref_agree_checked. Qed.
Print Assumptions C06_schema_accepts_iff_deserializer_accepts_with_classes.

(* classes given inline only (no reference): nested to any depth *)
Theorem C06_schema_accepts_iff_deserializer_accepts_inline_classes :
  forall u o refs ds,
  (forall e, refs (ename_ e) = true -> def_lookup (ename_ e) ds = Some (literal_schema (get_enum u e))) ->
  forall jf n ign t d, nest_hyps u o refs n ign t d = true ->
  jvalid false ds jf (build u o refs n ign t) d = accepts (spec u o n None t d).
Proof. exact nest_agree_checked. Qed.
Print Assumptions C06_schema_accepts_iff_deserializer_accepts_inline_classes.

(* satisfiable, with an accepted and a rejected datum each: a recursive tree node given by reference; an order holding a
   customer, a list of lines and an optional address, all inline *)
Theorem C06_class_hypotheses_satisfiable :
  ref_hyps ref_ex_univ ref_ex_opts ref_ex_names [0] [] 11 12 5 5 false (TObj 0) ref_ex_good = true
  /\ ref_hyps ref_ex_univ ref_ex_opts ref_ex_names [0] [] 11 12 5 5 false (TObj 0) ref_ex_bad = true
  /\ nest_hyps nest_ex_univ nest_ex_opts (fun _ => false) 2 false (TObj 2) nest_ex_good = true
  /\ nest_hyps nest_ex_univ nest_ex_opts (fun _ => false) 2 false (TObj 2) nest_ex_bad = true.
Proof. vm_compute. repeat split. Qed.
Print Assumptions C06_class_hypotheses_satisfiable.

(* dependent_required: the `dependentRequired` keyword the builder emits (aliased names, sorted) holds of an object exactly
   when the specification's rule "a field absent from the datum is not required by a present one" rejects nothing - for
   every class whose dependencies name declared fields, every aliaser, every object. *)
Theorem C06_dependent_required_keyword_is_the_spec_rule : forall o cd (kvs : list (string * pyval)),
  wf_depreq cd = true ->
  depreq_ok (depreq_schema o cd) (PDict kvs) = no_missing_dependency o cd kvs.
Proof. exact depreq_keyword_is_the_spec_rule. Qed.
Print Assumptions C06_dependent_required_keyword_is_the_spec_rule.

(* the class theorems apply to classes with dependencies: a discount code requires the e-mail, under a prefixing aliaser *)
Theorem C06_dependent_required_hypotheses_satisfiable :
  nest_hyps dr_ex_univ dr_ex_opts (fun _ => false) 1 false (TObj 0) dr_ex_good = true
  /\ nest_hyps dr_ex_univ dr_ex_opts (fun _ => false) 1 false (TObj 0) dr_ex_bad = true
  /\ accepts (spec dr_ex_univ dr_ex_opts 2 None (TObj 0) dr_ex_good) = true
  /\ accepts (spec dr_ex_univ dr_ex_opts 2 None (TObj 0) dr_ex_bad) = false
  /\ depreq_schema dr_ex_opts (get_cls dr_ex_univ 0) = [("p_discount", ["p_e_mail"; "p_name"])]%string.
Proof. exact dr_ex. Qed.
Print Assumptions C06_dependent_required_hypotheses_satisfiable.
