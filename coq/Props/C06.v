(* C06 — deserialize and deserialization_schema agree on what is valid. *)
From Coq Require Import List String ZArith Bool.
From AV Require Import Core.Json Deser.Model Deser.Spec Schema.Json Schema.Build Schema.Proofs.
Import ListNotations.

(* placeholder while the development is being built: a literal schema accepts exactly the listed values *)
Theorem C06_literal_schema : forall vs d, in_domain d = true ->
  jvalid false [] 0 (literal_schema vs) d = existsb (fun p => json_eq (prim_data p) d) vs.
Proof. exact literal_schema_valid. Qed.
Print Assumptions C06_literal_schema.
