(* C17 — Generated JSON Schemas are well-formed, closed and finite. *)
From Coq Require Import List String ZArith Bool.
From AV Require Import Core.Json Deser.Model Schema.Json Schema.Build Schema.Proofs.
Import ListNotations.

(* every "$ref" occurring in the schema built for a type (any universe, options, nesting depth, recursive classes) names a
   member of the extracted reference set ... *)
Theorem C17_refs_are_extracted_names : forall u o refs fuel t ign n,
  In n (refs_in (build u o refs fuel ign t)) -> refs n = true.
Proof. exact build_refs_in_refs. Qed.
Print Assumptions C17_refs_are_extracted_names.

(* ... and the definitions emitted with it define every extracted name: the document is closed *)
Theorem C17_extracted_names_are_defined : forall u o refs fuel classes enums n,
  refs n = true ->
  (exists c, In c classes /\ n = cname c) \/ (exists e, In e enums /\ n = ename_ e) ->
  def_lookup n (defs_for u o refs fuel classes enums) <> None.
Proof. exact defs_define_refs. Qed.
Print Assumptions C17_extracted_names_are_defined.
