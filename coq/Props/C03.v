(* C03 — Deserialization is total, pure and crash-free on arbitrary input. *)
From Coq Require Import List String ZArith Bool.
From AV Require Import Core.Json Core.Errors Deser.Model Deser.Spec Deser.Loops Deser.Proofs Deser.NoCrash.
Import ListNotations.

(* for EVERY datum of the value space — objects of non-JSON classes (POther), NaN, infinities, integers of any size,
   at any nesting depth — the compiled tree never reaches a crash (strict options; coercion: see below) *)
Theorem C03_never_crashes :
  forall u o fuel root t d,
  strict_opts o -> wf_univ u o = true -> wf_ty t = true -> union_order_ok t = true -> wf_data d = true ->
  spec_deserialize u o fuel root t d <> SFuel ->
  forall w, deserialize u o fuel root t d <> RCrash w.
Proof. exact strict_never_crashes. Qed.
Print Assumptions C03_never_crashes.

Theorem C03_value_or_validation_error :
  forall u o fuel root t d,
  strict_opts o -> wf_univ u o = true -> wf_ty t = true -> union_order_ok t = true -> wf_data d = true ->
  spec_deserialize u o fuel root t d <> SFuel -> deserialize u o fuel root t d <> RFuel ->
  (exists v, deserialize u o fuel root t d = ROk v) \/
  (exists e, deserialize u o fuel root t d = RErr e /\ exists l, flatten e = l).
Proof. exact outcome_is_value_or_validation_error. Qed.
Print Assumptions C03_value_or_validation_error.

(* the default coercer is total: it converts, or reports a type mismatch *)
Theorem C03_coercer_total :
  forall cls d, (exists d', coerce cls d = inl d') \/ coerce cls d = inr (bad_type d [cls]).
Proof. exact coercer_never_crashes. Qed.
Print Assumptions C03_coercer_total.

Theorem C03_malformed_data_in_scope : wf_data ex_malformed = true.
Proof. exact malformed_is_in_scope. Qed.
Print Assumptions C03_malformed_data_in_scope.
