(* C19 — GraphQL schema mirrors the data model and executes like (de)serialize. *)
From Coq Require Import List String Bool.
From AV Require Import Small.Gql Small.GqlProofs.
Import ListNotations.

(* an output field is non-null exactly when its type is neither Optional nor a union with UndefinedType *)
Theorem C19_output_non_null_unless_optional_or_undefined : forall t,
  is_nonnull (out_type t) = negb (nullable_ty t).
Proof. exact out_nonnull_iff. Qed.
Print Assumptions C19_output_non_null_unless_optional_or_undefined.

(* an argument / input field is non-null exactly when its type is not nullable and it is required or has a serializable
   default (a None / Undefined / unserializable default makes it nullable) *)
Theorem C19_argument_nullability : forall t d,
  is_nonnull (in_type t d) = negb (nullable_ty t) && match d with DRequired | DSerializable => true | _ => false end.
Proof. exact in_nonnull_iff. Qed.
Print Assumptions C19_argument_nullability.

Theorem C19_optional_keeps_the_named_type : forall t, named_of (out_type (GOpt t)) = named_of (out_type t).
Proof. exact out_name_ignores_optional. Qed.
Print Assumptions C19_optional_keeps_the_named_type.
