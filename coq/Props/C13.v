(* C13 — Union dispatch shortcuts equal try-each-alternative semantics (deserialization). *)
From Coq Require Import List String ZArith Bool.
From AV Require Import Core.Json Core.Errors Deser.Model Deser.Spec Deser.Unfold Deser.Loops Deser.Proofs Deser.Union.
Import ListNotations.

(* whatever strategy was compiled (Optional / by JSON class / sequential), the union's outcome is the outcome of the
   first alternative that does not reject, the alternatives being tried in declaration order *)
Theorem C13_union_is_first_accepting_alternative :
  forall u o, o_coerce o = false -> wf_univ u o = true ->
  forall fuel acc ts d,
  wf_ty (TUnion ts) = true -> union_order_ok (TUnion ts) = true -> wf_data d = true ->
  Forall (fun t => exec u o fuel (compile o acc t) d <> RFuel /\ spec u o fuel acc t d <> SFuel) ts ->
  exec u o fuel (compile o acc (TUnion ts)) d <> RFuel ->
  kind_eq (exec u o fuel (compile o acc (TUnion ts)) d)
          (first_res (map (fun t => exec u o fuel (compile o acc t) d) ts)).
Proof. exact union_is_first_accepting. Qed.
Print Assumptions C13_union_is_first_accepting_alternative.

(* the by-JSON-class shortcut alone, against the declarative "first accepting" semantics *)
Theorem C13_dispatch_by_class_is_sound :
  forall u o fuel acc ts d,
  forallb (fun c => match c with Some _ => true | None => false end) (map ty_cls ts) = true ->
  nodup_cls (map the_cls ts) = true ->
  float_before_int (map ty_cls ts) false = false ->
  Forall (fun t => agree (exec u o fuel (compile o acc t) d) (spec u o fuel acc t d)) ts ->
  agree (exec u o fuel (MByType (combine (map the_cls ts) (map (compile o acc) ts))) d)
        (first_spec (fun t => spec u o fuel acc t d) ts).
Proof. exact bytype_agree. Qed.
Print Assumptions C13_dispatch_by_class_is_sound.

Theorem C13_optional_is_the_two_alternative_case :
  forall u o, o_coerce o = false -> wf_univ u o = true ->
  forall fuel acc t d,
  wf_ty t = true -> union_order_ok t = true -> wf_data d = true -> is_none_ty t = false ->
  exec u o fuel (compile o acc t) d <> RFuel -> spec u o fuel acc t d <> SFuel ->
  exec u o fuel (compile o acc (TUnion [t; TNone])) d <> RFuel ->
  kind_eq (exec u o fuel (compile o acc (TUnion [t; TNone])) d)
          (first_res [exec u o fuel (compile o acc t) d; exec u o fuel (compile o acc TNone) d]).
Proof. exact optional_is_union. Qed.
Print Assumptions C13_optional_is_the_two_alternative_case.
