(* C15 — Field-set tracking reflects the input and drives exclude_unset. *)
From Coq Require Import List String Bool.
From AV Require Import Small.FieldsSet Small.FieldsSetProofs Core.Json Deser.Model Ser.Model Ser.Spec Ser.Unfold Ser.Proofs.
Import ListNotations.

(* after ANY sequence of constructor calls, attribute assignments, set_fields / unset_fields and replace, the tracked
   set is the one the documentation describes, operation by operation *)
Theorem C15_tracking_is_the_documented_fold :
  forall c ops fs fs', (forall x, In x fs <-> In x fs') ->
  forall x, In x (fold_left (step c) ops fs) <-> In x (fold_left (doc_step c) ops fs').
Proof. exact run_is_documented. Qed.
Print Assumptions C15_tracking_is_the_documented_fold.

(* deserialize: the keys present in the data (InitVars excluded) plus default_as_set and init=False fields *)
Theorem C15_after_deserialize :
  forall c present x,
  In x (after_deserialize c present) <-> (In x present /\ ~ In x (init_vars c)) \/ In x (post_init c).
Proof. exact after_deserialize_spec. Qed.
Print Assumptions C15_after_deserialize.

Theorem C15_replace_keeps_and_adds :
  forall c fs ch x, In x (step c fs (OReplace ch)) <-> In x fs \/ (In x ch /\ ~ In x (init_vars c)).
Proof. exact replace_spec. Qed.
Print Assumptions C15_replace_keeps_and_adds.

Theorem C15_unset_removes_exactly :
  forall c fs names x, In x (step c fs (OUnsetFields names)) <-> In x fs /\ ~ In x names.
Proof. exact unset_spec. Qed.
Print Assumptions C15_unset_removes_exactly.

(* inheritance to an undecorated class overriding __init__: what the subclass assigns before and after delegating to the tracked
   __init__, the arguments it forwards, and the default_as_set / init=False fields -- nothing else, nothing less *)
Theorem C15_subclass_constructor :
  forall c pre post n kw x,
  In x (fold_left (step c) ((OAlloc :: map OSetAttr pre) ++ OInit n kw :: map OSetAttr post) []) <->
  In x pre \/ In x post \/ (In x (firstn n (params c) ++ kw) /\ ~ In x (init_vars c)) \/ In x (post_init c).
Proof. exact subclass_constructor_spec. Qed.
Print Assumptions C15_subclass_constructor.

(* exclude_unset: a field of a with_fields_set class is emitted only if it is in the set (first disjunct of `omitted`);
   with exclude_unset=False the set plays no role.  Stated on the compiled field strategies of the serializer. *)
Theorem C15_exclude_unset_drives_serialization :
  forall u o (g : smeth -> value -> sres) cd fd v x acc,
  is_typed_dict cd = false ->
  getattr v (fd_name fd) = Some x ->
  (x = VUndefined -> fs_undefined (fd_ser fd) = true) ->
  (forall y, g SIdentity y = SROk y) ->
  fields_loop g v [compile_sfield u o cd fd] acc =
  if omitted o cd v fd (Some x) then inl acc
  else emit g (scompile u o (fd_ty fd)) (so_aliaser o (fd_alias fd)) x acc.
Proof. exact field_omission_rule. Qed.
Print Assumptions C15_exclude_unset_drives_serialization.
