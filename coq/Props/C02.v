(* C02 — Rejections report every violation once, at its location in the input. *)
From Coq Require Import List String ZArith Bool Sorted Permutation.
From AV Require Import Core.Json Core.Errors Core.Text Deser.Model Deser.Unfold Deser.ErrorsProofs Deser.ObjErrors.
Import ListNotations.

(* the array loop (lists, sets, variadic tuples): the children of the rejection are EXACTLY the failing elements,
   each under its own index, in order; the values are exactly the accepted ones *)
Theorem C02_array_children_exact :
  forall (g : pyval -> res) l i vs ch, elts_loop g i l = A3 vs ch None -> ch = errs_of g i l /\ vs = oks_of g l.
Proof. exact elts_children_exact. Qed.
Print Assumptions C02_array_children_exact.

Theorem C02_list_rejection_exact :
  forall u o fuel cs vm l e,
  exec u o fuel (MList cs vm) (PList l) = RErr e ->
  e = VE (map cmsg (filter (fun k => negb (cvalid k (PList l))) cs)) (errs_of (exec u o fuel vm) 0 l).
Proof. exact list_errors_exact. Qed.
Print Assumptions C02_list_rejection_exact.

(* a violation in one branch never hides a violation in a sibling branch *)
Theorem C02_no_hiding_between_siblings :
  forall u o fuel cs vm l e i j x y ei ej,
  exec u o fuel (MList cs vm) (PList l) = RErr e ->
  nth_error l i = Some x -> exec u o fuel vm x = RErr ei ->
  nth_error l j = Some y -> exec u o fuel vm y = RErr ej ->
  In (KIdx i, ei) (children_of e) /\ In (KIdx j, ej) (children_of e).
Proof. exact list_no_hiding. Qed.
Print Assumptions C02_no_hiding_between_siblings.

(* no entry points at a valid location *)
Theorem C02_no_entry_at_valid_location :
  forall u o fuel cs vm l e k ek,
  exec u o fuel (MList cs vm) (PList l) = RErr e -> In (k, ek) (children_of e) ->
  exists i x, k = KIdx i /\ nth_error l i = Some x /\ exec u o fuel vm x = RErr ek.
Proof. exact list_no_spurious. Qed.
Print Assumptions C02_no_entry_at_valid_location.

(* deterministic order of `errors`: own messages first, then the children in sorted key order, nothing lost *)
Theorem C02_own_messages_first :
  forall msgs ch, exists rest,
  flatten (VE msgs ch) = (map (fun m => ([], m)) msgs ++ rest)%list /\ Forall (fun e : loc_err => fst e <> []) rest.
Proof. exact flatten_own_messages_first. Qed.
Print Assumptions C02_own_messages_first.

Theorem C02_children_in_key_order :
  forall (A : Type) (l : list (ekey * A)), LocallySorted key_le (sort_by_key l) /\ Permutation (sort_by_key l) l.
Proof. intros A l. split; [exact (sort_by_key_sorted l)|exact (sort_by_key_perm l)]. Qed.
Print Assumptions C02_children_in_key_order.

(* OBJECTS (ObjectMethod): the children of the rejection are EXACTLY, in declaration order, one entry per field whose value is
   rejected (under the external name, carrying that field's own error), per missing required field, per field required by a
   present one (dependent_required) -- followed by one entry per unexpected property when additional properties are refused
   (the implementation only looks for them when len(data) differs from the number of fields found: `differ`); the messages
   are those of the violated object constraints.  (A crash / fuel exhaustion of a field method is excluded: C03.) *)
Theorem C02_object_children_exact :
  forall u o fuel cid c cs fs aliases addprops td kvs e,
  exec u o fuel (MObj cid c cs fs aliases addprops td) (PDict kvs) = RErr e ->
  (forall st, snd (obj_loop (exec u o fuel) kvs fs) = Some st -> False) ->
  let extra := filter (fun kv => negb (existsb (String.eqb (fst kv)) aliases)) kvs in
  let differ := negb (Nat.eqb (List.length kvs) (List.length (filter (field_present kvs) fs))) in
  e = VE (match validate_constraints (PDict kvs) cs [] with Some (VE ms _) => ms | None => [] end)
         (flat_map (field_errs (exec u o fuel) kvs) fs
          ++ (if (differ && negb addprops)%bool then map (fun kv => (KStr (fst kv), err_msg msg_unexpected)) extra else [])).
Proof. exact obj_errors_exact. Qed.
Print Assumptions C02_object_children_exact.

Theorem C02_object_no_hiding :
  forall u o fuel cid c cs fs aliases addprops td kvs e name alias fm reqby x ef,
  exec u o fuel (MObj cid c cs fs aliases addprops td) (PDict kvs) = RErr e ->
  (forall st, snd (obj_loop (exec u o fuel) kvs fs) = Some st -> False) ->
  In (MF name alias fm true reqby false) fs -> dict_get alias kvs = Some x -> exec u o fuel fm x = RErr ef ->
  In (KStr alias, ef) (children_of e).
Proof. exact obj_no_hiding. Qed.
Print Assumptions C02_object_no_hiding.

Theorem C02_missing_required_field_reported :
  forall u o fuel cid c cs fs aliases addprops td kvs e name alias fm reqby fb,
  exec u o fuel (MObj cid c cs fs aliases addprops td) (PDict kvs) = RErr e ->
  (forall st, snd (obj_loop (exec u o fuel) kvs fs) = Some st -> False) ->
  In (MF name alias fm true reqby fb) fs -> dict_get alias kvs = None ->
  In (KStr alias, err_msg msg_missing) (children_of e).
Proof. exact obj_missing_reported. Qed.
Print Assumptions C02_missing_required_field_reported.
