(* C20 — Concurrent first use from several threads is safe. *)
From Coq Require Import List Bool Arith.
From AV Require Import Small.RecCache Small.RecCacheProofs.
Import ListNotations.

(* With the analyses serialized (the lock of is_recursive), every sequence of at most 3 analyses over every graph on
   3 nodes (all 512 edge relations, every root sequence) leaves a cache that is exact (an entry is true iff the node lies on
   a cycle), has an entry for every node reachable from an analysed root, and is functional.
   Bounded-exhaustive: the bound is part of the statement. *)
Theorem C20_serialized_analyses_leave_a_valid_cache_3 :
  forall g roots, In g (all_graphs 3) -> In roots (seqs 3 3) -> check g roots = true.
Proof. exact sequential_analyses_correct_3_forall. Qed.
Print Assumptions C20_serialized_analyses_leave_a_valid_cache_3.

(* the lock makes the interleaved machine behave as the sequential visit *)
Theorem C20_locked_small_step_is_visit_3 : small_eq_big 3 = true.
Proof. exact locked_small_step_is_visit_3. Qed.
Print Assumptions C20_locked_small_step_is_visit_3.

(* what the lock prevents: the unlocked interleaving of two first uses of X <-> Y leaves X cached as not recursive *)
Theorem C20_unlocked_interleaving_refuted : exists g r1 r2 s, exact g (unlocked g r1 r2 s) = false.
Proof. exact unlocked_interleaving_refuted. Qed.
Print Assumptions C20_unlocked_interleaving_refuted.

(* the path-marking analysis the implementation used before the fix leaves a node of a cycle unmarked (sequentially) *)
Theorem C20_old_analysis_refuted : exists g roots, exact g (after_old g roots) = false.
Proof. exact old_analysis_refuted. Qed.
Print Assumptions C20_old_analysis_refuted.

(* fill-if-absent caches (lru_cache'd factories, RecMethod/Lazy): however the stores of concurrently computed results of a
   deterministic function interleave, later reads return that function's value; unbounded *)
Theorem C20_fill_if_absent_never_changes_later_reads :
  forall (K V : Type) (f : K -> V) (keqb : K -> K -> bool), (forall a b, keqb a b = true -> a = b) ->
  forall ks c, consistent K V f keqb c -> consistent K V f keqb (fold_left (fill K V f) ks c).
Proof. exact fills_never_change_reads. Qed.
Print Assumptions C20_fill_if_absent_never_changes_later_reads.
