(* C16 — Field order is a deterministic function of declaration and order() specs.
   Only property theorems here, each closed by `exact` of a lemma proved elsewhere. *)
From Coq Require Import List String ZArith Bool Permutation Sorted.
From AV Require Import Small.Ordering Small.OrderingProofs.
Import ListNotations.

(* Ordering never loses or duplicates an element: whenever the names are distinct and every after/before
   chain ends at an element placed by an order value, the result exists and is a permutation. *)
Theorem C16_sort_total_permutation :
  forall ov es0, wf (map (effective ov) es0) = true ->
  exists r, sort_by_order ov es0 = Some r /\ Permutation r (map (effective ov) es0).
Proof. exact sort_by_order_total_perm. Qed.
Print Assumptions C16_sort_total_permutation.

(* ... and for ANY specification (cycles included): if a result is returned at all, it is a permutation. *)
Theorem C16_sort_never_loses :
  forall ov es0 r, nodupb (names (map (effective ov) es0)) = true ->
  sort_by_order ov es0 = Some r -> Permutation r (map (effective ov) es0).
Proof. exact sort_by_order_never_loses. Qed.
Print Assumptions C16_sort_never_loses.

(* The elements placed by an order value come out in ascending value ... *)
Theorem C16_roots_ascending :
  forall es,
  filter (grouped es) (sort_core es) = isort es (roots es) /\ StronglySorted (le_val es) (isort es (roots es)).
Proof. intros es. split; [exact (roots_subsequence es) | exact (isort_sorted es (roots es))]. Qed.
Print Assumptions C16_roots_ascending.

(* ... and in declaration order within one value. *)
Theorem C16_declaration_order_within_value :
  forall es z l, filter (fun x => Z.eqb (val es x) z) (isort es l) = filter (fun x => Z.eqb (val es x) z) l.
Proof. exact isort_stable. Qed.
Print Assumptions C16_declaration_order_within_value.

(* after=x / before=x elements are attached directly after / before x together with their own attachments *)
Theorem C16_attachment_shape :
  forall f es e,
  add (S f) es e =
  (flat_map (add f es) (filter (is_before es (ename e)) es) ++ [e] ++ flat_map (add f es) (filter (is_after es (ename e)) es))%list.
Proof. exact add_shape. Qed.
Print Assumptions C16_attachment_shape.

(* class-level order(...) overrides field-level metadata *)
Theorem C16_override_wins :
  forall ov e o, lookup (ename e) ov = Some o -> eord (effective ov e) = Some o /\ ename (effective ov e) = ename e.
Proof. exact effective_override_wins. Qed.
Print Assumptions C16_override_wins.
