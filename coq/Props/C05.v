(* C05 — Round trip: deserialize after serialize is the identity on values. *)
From Coq Require Import List String ZArith Bool.
From AV Require Import Core.Json Deser.Model Deser.Spec Ser.Model Ser.Spec Ser.RoundTrip Ser.RoundTripProofs Ser.RoundTripInd Ser.CompileProofs Ser.Chain
  Deser.Proofs Ser.RoundTripGen.
Import ListNotations.

(* values of type Any: the JSON value built from any JSON datum reads back as the same datum *)
Theorem C05_any_data_round_trip : forall d, is_json_data d = true -> unembed (embed d) = Some d.
Proof. exact unembed_embed. Qed.
Print Assumptions C05_any_data_round_trip.

(* THE ROUND TRIP on the declarative specifications (Ser/Spec.v: image = what serialize produces, Deser/Spec.v: spec = what
   deserialize accepts and builds; both tied to the implementation by C04 / C01).  For every universe, options, bound n on the
   nesting of classes, every type of the fragment
     primitives, List, Tuple[X, ...], Tuple[X, Y], Dict[str, X], Literal, Enum,
     unions whose alternatives accept pairwise disjoint classes of JSON data (Optional[X], Union[int, str, List[X]], ...),
     dataclasses / NamedTuples (recursive ones included) whose fields carry no skip option, constraint or Undefined,
     serialized in declaration order without exclude_none / exclude_defaults          (rt_univ; none needed without classes)
   and every well-typed value whose instances hold exactly their fields (canonical):
   the value serializes to some JSON j, and j deserializes back to that very value. *)
Theorem C05_round_trip :
  forall u o n t v,
  rt_ty u t = true -> ctx_ok u o t -> has_type u n t v = true -> canonical u v = true ->
  exists j d, image u o (S n) t v = SROk j /\ unembed j = Some d /\ spec u (dopts_of o) (S n) None t d = SOk v.
Proof. exact round_trip. Qed.
Print Assumptions C05_round_trip.

(* the same with executable hypotheses only (what the harness evaluates on every generated case) *)
Theorem C05_round_trip_checked :
  forall u o n t v, rt_hyps u o n t v = true ->
  exists j d, image u o (S n) t v = SROk j /\ unembed j = Some d /\ spec u (dopts_of o) (S n) None t d = SOk v.
Proof. exact round_trip_checked. Qed.
Print Assumptions C05_round_trip_checked.

(* the hypotheses hold for a recursive dataclass with an Optional reference to itself, a list, an enum, a tuple and a mapping of
   unions, under a dynamic aliaser *)
Theorem C05_hypotheses_satisfiable : rt_hyps rt_ex_univ rt_ex_opts 2 (TObj 0) rt_ex_value = true.
Proof. exact rt_ex_hyps. Qed.
Print Assumptions C05_hypotheses_satisfiable.

(* ... and on the MODELS OF THE CODE themselves: chaining C04 (compiled serializer = image) and C01 (compiled deserializer =
   spec), what the compiled serializer produces is read back by the compiled deserializer as the same value -- or the
   deserializer model runs out of its fuel *)
Theorem C05_compiled_models_round_trip :
  forall u so mf n t v,
  rt_hyps u so n t v = true -> cc_hyps u so mf n t v = true ->
  wf_univ u (dopts_of so) = true -> wf_ty t = true -> union_order_ok t = true ->
  exists j d, serialize u so (S n) t v = SROk j /\ unembed j = Some d /\
              (wf_data d = true ->
               deserialize u (dopts_of so) (S n) None t d = ROk v \/ deserialize u (dopts_of so) (S n) None t d = RFuel).
Proof. exact compiled_models_round_trip. Qed.
Print Assumptions C05_compiled_models_round_trip.

(* SKIPS THAT ARE SYMMETRIC.  The bijective fragment excludes asymmetric skips; the others are covered: for dataclasses /
   NamedTuples whose fields carry skip(serialization_default=True), none_as_undefined, an Undefined union, defaults of any
   kind, under exclude_none / exclude_defaults and any order(), provided each omission restores the very value left out
   (sym_field, executable: a None / Undefined that is dropped is the default; a default compared with == is a scalar of the
   field's type or an empty list, so that Python equality is identity), serialization followed by deserialization gives
   the value back.  The field loop leaves a subset of the properties; deserialization finds the emitted ones by their
   alias, sees the others absent and optional, and the construction puts the defaults back. *)
Theorem C05_round_trip_with_symmetric_skips :
  forall u o n t v, rtg_hyps u o n t v = true ->
  exists j d, image u o (S n) t v = SROk j /\ unembed j = Some d /\ spec u (dopts_of o) (S n) None t d = SOk v.
Proof. exact round_trip_gen_checked. Qed.
Print Assumptions C05_round_trip_with_symmetric_skips.

Theorem C05_symmetric_skips_hypotheses_satisfiable :
  rtg_hyps rtg_ex_univ rtg_ex_opts 3 (TObj 1) rtg_ex_value = true
  /\ rt_hyps rtg_ex_univ rtg_ex_opts 3 (TObj 1) rtg_ex_value = false
  /\ exists j, image rtg_ex_univ rtg_ex_opts 4 (TObj 1) rtg_ex_value = SROk j
               /\ unembed j = Some (PDict [("p_lines", PList [PDict [("p_sku", PStr "x")];
                                                               PDict [("p_parts", PList [PStr "p"]); ("p_sku", PStr "y"); ("p_quantity", PInt 2);
                                                                      ("p_note", PStr "n"); ("p_tag", PStr "t")]])]%string).
Proof. exact rtg_ex. Qed.
Print Assumptions C05_symmetric_skips_hypotheses_satisfiable.

From AV Require Import Small.Aggregate Small.AggregateRT.

(* AGGREGATE FIELDS, KEY BY KEY.  serialize merges into one object the regular properties, the objects of the flattened
   fields and the dicts of the pattern / additional properties fields (`merged`, compared with the keys of serialize's output
   on every generated class); deserialize dispatches the keys of that object (`dispatch`, compared with apischema under C01).
   When no key is claimed by two sources (agg_rt_hyps, executable, counted on the generated cases), every source gets back
   exactly the keys it emitted; with a collision it does not. *)
Theorem C05_aggregate_keys_round_trip :
  forall a e, agg_rt_hyps a e = true ->
  let '(ts, ms, rest) := dispatch a (merged e) in
  Forall2 set_eq ts (kids e) /\ Forall2 set_eq ms (pkeys e) /\ set_eq rest (extra e).
Proof. exact aggregate_keys_round_trip. Qed.
Print Assumptions C05_aggregate_keys_round_trip.

Theorem C05_aggregate_hypotheses_satisfiable_and_needed :
  agg_rt_hyps rt_ex_agg rt_ex_em = true
  /\ (let a := mkAgg ["n0"] [["f0"]] [] true in let e := mkEm ["n0"] [[]] [] ["f0"] in
      agg_rt_hyps a e = false /\ dispatch a (merged e) = ([["f0"]], [], []))%string.
Proof. split; [exact agg_rt_ex|exact collision_refuted]. Qed.
Print Assumptions C05_aggregate_hypotheses_satisfiable_and_needed.
