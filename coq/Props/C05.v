(* C05 — Round trip: deserialize after serialize is the identity on values. *)
From Coq Require Import List String ZArith Bool.
From AV Require Import Core.Json Deser.Model Deser.Spec Ser.Model Ser.Spec Ser.RoundTrip Ser.RoundTripProofs Ser.RoundTripInd.
Import ListNotations.

(* values of type Any: the JSON value built from any JSON datum reads back as the same datum *)
Theorem C05_any_data_round_trip : forall d, is_json_data d = true -> unembed (embed d) = Some d.
Proof. exact unembed_embed. Qed.
Print Assumptions C05_any_data_round_trip.

(* THE ROUND TRIP on the declarative specifications (Ser/Spec.v: image = what serialize produces, Deser/Spec.v: spec = what
   deserialize accepts and builds; both tied to the implementation by C04 / C01).  For every universe, options, bound n on the
   nesting of classes, every type of the fragment
     primitives, List, Tuple[X, ...], Tuple[X, Y], Dict[str, X], Literal, Enum,
     unions whose alternatives accept pairwise disjoint classes of JSON data (Optional[X], Union[int, str, List[X]], ...),
     dataclasses / NamedTuples (recursive ones included) whose fields carry no skip option, constraint or Undefined,
     serialized in declaration order without exclude_none / exclude_defaults          (rt_univ; none needed without classes)
   and every well-typed value whose instances hold exactly their fields (canonical):
   the value serializes to some JSON j, and j deserializes back to that very value. *)
Theorem C05_round_trip :
  forall u o n t v,
  rt_ty u t = true -> ctx_ok u o t -> has_type u n t v = true -> canonical u v = true ->
  exists j d, image u o (S n) t v = SROk j /\ unembed j = Some d /\ spec u (dopts_of o) (S n) None t d = SOk v.
Proof. exact round_trip. Qed.
Print Assumptions C05_round_trip.

(* the same with executable hypotheses only (what the harness evaluates on every generated case) *)
Theorem C05_round_trip_checked :
  forall u o n t v, rt_hyps u o n t v = true ->
  exists j d, image u o (S n) t v = SROk j /\ unembed j = Some d /\ spec u (dopts_of o) (S n) None t d = SOk v.
Proof. exact round_trip_checked. Qed.
Print Assumptions C05_round_trip_checked.

(* the hypotheses hold for a recursive dataclass with an Optional reference to itself, a list, an enum, a tuple and a mapping of
   unions, under a dynamic aliaser *)
Theorem C05_hypotheses_satisfiable : rt_hyps rt_ex_univ rt_ex_opts 2 (TObj 0) rt_ex_value = true.
Proof. exact rt_ex_hyps. Qed.
Print Assumptions C05_hypotheses_satisfiable.
