(* C05 — Round trip: deserialize after serialize is the identity on values. *)
From Coq Require Import List String ZArith Bool.
From AV Require Import Core.Json Deser.Model Ser.Model Ser.RoundTrip Ser.RoundTripProofs.
Import ListNotations.

(* values of type Any: the JSON value built from any JSON datum reads back as the same datum *)
Theorem C05_any_data_round_trip : forall d, is_json_data d = true -> unembed (embed d) = Some d.
Proof. exact unembed_embed. Qed.
Print Assumptions C05_any_data_round_trip.
