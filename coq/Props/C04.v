(* C04 — Serialization yields the JSON image prescribed by the type.
   Model: Ser/Model.v; declarative image and omission rule: Ser/Spec.v. *)
From Coq Require Import List String ZArith Bool.
From AV Require Import Core.Json Core.Errors Deser.Model Ser.Model Ser.Spec Ser.Unfold Ser.Proofs Ser.RoundTripInd Ser.CompileProofs.
Import ListNotations.

(* the 2^k omission table, as one statement: whatever strategy is compiled for a field (IdentityField, SimpleField,
   ComplexField — chosen from required / default kind / Optional / Undefined / none_as_undefined / skip metadata /
   exclude_defaults / exclude_none / exclude_unset), the key is absent exactly when `omitted` holds: value Undefined,
   or None / default / unset / condition-matching with the corresponding metadata or option; otherwise it holds the
   serialized value under the aliased name *)
Theorem C04_field_omitted_iff_rule :
  forall u o (g : smeth -> value -> sres) cd fd v x acc,
  is_typed_dict cd = false ->
  getattr v (fd_name fd) = Some x ->
  (x = VUndefined -> fs_undefined (fd_ser fd) = true) ->
  (forall y, g SIdentity y = SROk y) ->
  fields_loop g v [compile_sfield u o cd fd] acc =
  if omitted o cd v fd (Some x) then inl acc
  else emit g (scompile u o (fd_ty fd)) (so_aliaser o (fd_alias fd)) x acc.
Proof. exact field_omission_rule. Qed.
Print Assumptions C04_field_omitted_iff_rule.

Theorem C04_typed_dict_field_rule :
  forall u o (g : smeth -> value -> sres) cd fd kvs acc,
  is_typed_dict cd = true -> cd_fields_set cd = false ->
  fields_loop g (VDict kvs) [compile_sfield u o cd fd] acc =
  match vdict_get (fd_name fd) kvs with
  | None => if fd_required fd then inr (SRCrash "KeyError / AttributeError") else inl acc
  | Some x => if omitted o cd (VDict kvs) fd (Some x) then inl acc
              else emit g (scompile u o (fd_ty fd)) (so_aliaser o (fd_alias fd)) x acc
  end.
Proof. exact typed_dict_field_rule. Qed.
Print Assumptions C04_typed_dict_field_rule.

Theorem C04_serialized_method_rule :
  forall u o (g : smeth -> value -> sres) sm v acc,
  fields_loop g v [compile_smethod u o sm] acc =
  if ((sm_undefined sm && is_vundef (sm_result sm))
      || (so_excl_none o && ty_has_none (sm_ty sm) && is_vnone (sm_result sm)))%bool then inl acc
  else emit g (scompile u o (sm_ty sm)) (so_aliaser o (sm_alias sm)) (sm_result sm) acc.
Proof. exact method_omission_rule. Qed.
Print Assumptions C04_serialized_method_rule.

(* an object is serialized field by field with the loop these rules describe *)
Theorem C04_object_method_is_the_field_loop :
  forall u o fuel fs v,
  sexec u o fuel (SObj fs) v = match fields_loop (sexec u o fuel) v fs [] with inl acc => SROk (VDict acc) | inr e => e end.
Proof. exact sexec_SObj. Qed.
Print Assumptions C04_object_method_is_the_field_loop.

(* THE COMPILER-CORRECTNESS STATEMENT.  The method tree compiled for a type (identity / check-only / list / dict shortcuts
   under no_copy, tuple, mapping, Optional and union dispatch by runtime class with the n-tuple check, enum value, Any by
   runtime class, object methods with their field strategies and ordering, simple-object fast path) computes, on every
   well-typed value and for every amount of fuel, the documented image (Ser/Spec.v: no strategies, one rule per type):
   same JSON value, or both fail, or both run out of fuel.
   Conditions: no pass-through option (C08 covers them); unions have alternatives with pairwise disjoint runtime classes
   (du_ty / du_univ: otherwise a failing first alternative hands an ill-typed value to the next); the constant results of
   serialized methods have their declared type; TypedDicts do not track unset fields and their additional properties
   (arbitrary values) are not serialized. *)
Theorem C04_compiled_serializer_computes_the_image :
  forall u o,
  no_pass_through o = true ->
  (forall c, is_typed_dict (get_cls u c) = true -> cd_fields_set (get_cls u c) = false) ->
  du_univ u ->
  (forall c sm, In sm (cd_methods (get_cls u c)) ->
     ((sm_undefined sm && is_vundef (sm_result sm)) || (so_excl_none o && ty_has_none (sm_ty sm) && is_vnone (sm_result sm)))%bool = true
     \/ exists m, has_type u m (sm_ty sm) (sm_result sm) = true) ->
  (forall c, (is_typed_dict (get_cls u c) && so_addprops o)%bool = false) ->
  forall fuel t n v, du_ty u t = true -> has_type u n t v = true ->
  sim (serialize u o fuel t v) (image u o fuel t v).
Proof. exact compile_correct. Qed.
Print Assumptions C04_compiled_serializer_computes_the_image.

(* the same with executable hypotheses only: what the run evaluates on every generated case *)
Theorem C04_compiled_serializer_computes_the_image_checked :
  forall u o mf fuel n t v, cc_hyps u o mf n t v = true -> sim (serialize u o fuel t v) (image u o fuel t v).
Proof. exact compile_correct_checked. Qed.
Print Assumptions C04_compiled_serializer_computes_the_image_checked.

(* satisfiable: a recursive dataclass with an Optional self reference skipped when default, list, tuple, mapping of unions, a
   serialized method, under exclude_defaults + no_copy and a dynamic aliaser *)
Theorem C04_hypotheses_satisfiable : cc_hyps cc_ex_univ cc_ex_opts 5 3 (TObj 0) cc_ex_value = true.
Proof. exact cc_ex_hyps. Qed.
Print Assumptions C04_hypotheses_satisfiable.
