(* C04 — Serialization yields the JSON image prescribed by the type.
   Model: Ser/Model.v; declarative image and omission rule: Ser/Spec.v. *)
From Coq Require Import List String ZArith Bool.
From AV Require Import Core.Json Core.Errors Deser.Model Ser.Model Ser.Spec Ser.Unfold Ser.Proofs.
Import ListNotations.

(* the 2^k omission table, as one statement: whatever strategy is compiled for a field (IdentityField, SimpleField,
   ComplexField — chosen from required / default kind / Optional / Undefined / none_as_undefined / skip metadata /
   exclude_defaults / exclude_none / exclude_unset), the key is absent exactly when `omitted` holds: value Undefined,
   or None / default / unset / condition-matching with the corresponding metadata or option; otherwise it holds the
   serialized value under the aliased name *)
Theorem C04_field_omitted_iff_rule :
  forall u o (g : smeth -> value -> sres) cd fd v x acc,
  is_typed_dict cd = false ->
  getattr v (fd_name fd) = Some x ->
  (x = VUndefined -> fs_undefined (fd_ser fd) = true) ->
  (forall y, g SIdentity y = SROk y) ->
  fields_loop g v [compile_sfield u o cd fd] acc =
  if omitted o cd v fd (Some x) then inl acc
  else emit g (scompile u o (fd_ty fd)) (so_aliaser o (fd_alias fd)) x acc.
Proof. exact field_omission_rule. Qed.
Print Assumptions C04_field_omitted_iff_rule.

Theorem C04_typed_dict_field_rule :
  forall u o (g : smeth -> value -> sres) cd fd kvs acc,
  is_typed_dict cd = true -> cd_fields_set cd = false ->
  fields_loop g (VDict kvs) [compile_sfield u o cd fd] acc =
  match vdict_get (fd_name fd) kvs with
  | None => if fd_required fd then inr (SRCrash "KeyError / AttributeError") else inl acc
  | Some x => if omitted o cd (VDict kvs) fd (Some x) then inl acc
              else emit g (scompile u o (fd_ty fd)) (so_aliaser o (fd_alias fd)) x acc
  end.
Proof. exact typed_dict_field_rule. Qed.
Print Assumptions C04_typed_dict_field_rule.

Theorem C04_serialized_method_rule :
  forall u o (g : smeth -> value -> sres) sm v acc,
  fields_loop g v [compile_smethod u o sm] acc =
  if ((sm_undefined sm && is_vundef (sm_result sm))
      || (so_excl_none o && ty_has_none (sm_ty sm) && is_vnone (sm_result sm)))%bool then inl acc
  else emit g (scompile u o (sm_ty sm)) (so_aliaser o (sm_alias sm)) (sm_result sm) acc.
Proof. exact method_omission_rule. Qed.
Print Assumptions C04_serialized_method_rule.

(* an object is serialized field by field with the loop these rules describe *)
Theorem C04_object_method_is_the_field_loop :
  forall u o fuel fs v,
  sexec u o fuel (SObj fs) v = match fields_loop (sexec u o fuel) v fs [] with inl acc => SROk (VDict acc) | inr e => e end.
Proof. exact sexec_SObj. Qed.
Print Assumptions C04_object_method_is_the_field_loop.
