(* C08 — Options that are optimizations never change results (deserialization side). *)
From Coq Require Import List String ZArith Bool.
From AV Require Import Core.Json Core.Errors Deser.Model Deser.Spec Deser.Loops Deser.Proofs Deser.NoCopy.
Import ListNotations.

(* two option records that differ only by no_copy give the same accepted value / both reject *)
Theorem C08_no_copy_never_changes_the_result :
  forall u o1 o2 fuel root t d,
  strict_opts o1 -> strict_opts o2 ->
  o_addprops o1 = o_addprops o2 -> o_fallback o1 = o_fallback o2 -> (forall s, o_aliaser o1 s = o_aliaser o2 s) ->
  wf_univ u o1 = true -> wf_univ u o2 = true -> wf_ty t = true -> union_order_ok t = true -> wf_data d = true ->
  spec_deserialize u o1 fuel root t d <> SFuel ->
  same_outcome (deserialize u o1 fuel root t d) (deserialize u o2 fuel root t d).
Proof. exact no_copy_irrelevant. Qed.
Print Assumptions C08_no_copy_never_changes_the_result.

(* a check-only method (the ones no_copy lets return the input itself) returns exactly the image of the data *)
Theorem C08_check_only_methods_return_the_data :
  forall u o, o_coerce o = false ->
  forall fuel t acc d v,
  wf_data d = true -> check_only (compile o acc t) = true -> spec u o fuel acc t d = SOk v -> v = embed d.
Proof. exact check_only_embed. Qed.
Print Assumptions C08_check_only_methods_return_the_data.

(* the specification (hence every result) does not read no_copy at all *)
Theorem C08_data_model_ignores_optimisation_options :
  forall u o1 o2, o_addprops o1 = o_addprops o2 -> o_fallback o1 = o_fallback o2 ->
  (forall s, o_aliaser o1 s = o_aliaser o2 s) ->
  forall fuel t acc d, spec u o1 fuel acc t d = spec u o2 fuel acc t d.
Proof. exact spec_opts_ext. Qed.
Print Assumptions C08_data_model_ignores_optimisation_options.
