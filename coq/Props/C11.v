(* C11 — A field has one external name across every view. *)
From Coq Require Import List String Bool.
From AV Require Import Small.Names Small.NamesProofs.
Import ListNotations.

Theorem C11_required_names_are_property_names : forall dyn ca fields x,
  In x (view_required dyn ca fields) -> In x (view_properties dyn ca fields).
Proof. exact required_subset. Qed.
Print Assumptions C11_required_names_are_property_names.

Theorem C11_override_false_exempts_from_class_aliaser_only : forall dyn ca f,
  nf_override f = false -> external dyn ca f = dyn (base_alias f).
Proof. exact no_override_keeps_alias. Qed.
Print Assumptions C11_override_false_exempts_from_class_aliaser_only.

Theorem C11_injective_aliasers_keep_names_distinct : forall dyn g f1 f2,
  (forall a b, dyn a = dyn b -> a = b) -> (forall a b, g a = g b -> a = b) ->
  nf_override f1 = true -> nf_override f2 = true ->
  external dyn (Some g) f1 = external dyn (Some g) f2 -> base_alias f1 = base_alias f2.
Proof. exact external_injective. Qed.
Print Assumptions C11_injective_aliasers_keep_names_distinct.
