import importlib
import json
import os
import sys

from harness import core


def setup():
    deps = os.path.join(core.BUILD, ".pydeps")
    if not os.path.isdir(os.path.join(deps, "jsonschema")):
        rc, out = core.sh(f"{core.PY} -m pip install -q --no-index --find-links /opt/veriftools/wheels "
                          f"--target {deps} jsonschema", timeout=600)
        print(out[-2000:])
        if rc != 0:
            return rc
    ok, log, failed, terr = core.make()
    print(log[-3000:])
    if terr:
        print("translator:", terr)
    if not ok:
        print("coq build failed:", failed)
        return 1
    print("setup ok")
    return 0


def main(argv):
    if not argv:
        print(__doc__ or "usage: vcheck setup | <ID> [--tier t] | replay <path>")
        return 2
    if argv[0] == "setup":
        return setup()
    if argv[0] == "replay":
        data = json.load(open(argv[1]))
        mod = importlib.import_module("harness.props." + data["property"].lower())
        if "replay" not in data:
            print(json.dumps(data, indent=1))
            return 0
        mod.replay(data)
        return 0
    pid = argv[0].upper()
    tier = None
    if "--tier" in argv:
        tier = argv[argv.index("--tier") + 1]
    tier = core.tier_from(tier)
    mod = importlib.import_module("harness.props." + pid.lower())
    return mod.run(tier)


if __name__ == "__main__":
    sys.exit(main(sys.argv[1:]))
