import importlib
import json
import os
import sys

from harness import core


def ensure_deps():
    """jsonschema (the oracle validator) from the offline wheelhouse, once; every check calls this, so a check started on a
    fresh tree without `vcheck setup` still finds it"""
    deps = os.path.join(core.BUILD, ".pydeps")
    os.makedirs(core.BUILD, exist_ok=True)
    with core.Lock("pydeps"):
        if not os.path.isdir(os.path.join(deps, "jsonschema")):
            rc, out = core.sh(f"{core.PY} -m pip install -q --no-index --find-links /opt/veriftools/wheels "
                              f"--target {deps} jsonschema", timeout=600)
            if rc != 0:
                print(out[-2000:])
                return rc
    return 0


def setup():
    rc = ensure_deps()
    if rc != 0:
        return rc
    ok, log, failed, terr = core.make()
    print(log[-3000:])
    if terr:
        print("translator:", terr)
    if not ok:
        print("coq build failed:", failed)
        return 1
    print("setup ok")
    return 0


def main(argv):
    if not argv:
        print(__doc__ or "usage: vcheck setup | <ID> [--tier t] | replay <path>")
        return 2
    if argv[0] == "setup":
        return setup()
    if argv[0] == "replay":
        data = json.load(open(argv[1]))
        mod = importlib.import_module("harness.props." + data["property"].lower())
        if "replay" not in data:
            print(json.dumps(data, indent=1))
            return 0
        mod.replay(data)
        return 0
    pid = argv[0].upper()
    if ensure_deps() != 0:
        print("could not install jsonschema from /opt/veriftools/wheels")
        return 2
    tier = None
    if "--tier" in argv:
        tier = argv[argv.index("--tier") + 1]
    tier = core.tier_from(tier)
    mod = importlib.import_module("harness.props." + pid.lower())
    return mod.run(tier)


if __name__ == "__main__":
    sys.exit(main(sys.argv[1:]))
