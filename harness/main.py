import importlib
import json
import os
import sys

from harness import core


def ensure_deps():
    """jsonschema (the oracle validator) from the offline wheelhouse, once; every check calls this, so a check started on a
    fresh tree without `vcheck setup` still finds it"""
    deps = os.path.join(core.BUILD, ".pydeps")
    os.makedirs(core.BUILD, exist_ok=True)
    with core.Lock("pydeps"):
        if not os.path.isdir(os.path.join(deps, "jsonschema")):
            rc, out = core.sh(f"{core.PY} -m pip install -q --no-index --find-links /opt/veriftools/wheels "
                              f"--target {deps} jsonschema", timeout=600)
            if rc != 0:
                print(out[-2000:])
                return rc
    return 0


def setup():
    rc = ensure_deps()
    if rc != 0:
        return rc
    ok, log, failed, terr = core.make()
    print(log[-3000:])
    if terr:
        print("translator:", terr)
    if not ok:
        print("coq build failed:", failed)
        return 1
    print("setup ok")
    return 0


def main(argv):
    if not argv:
        print(__doc__ or "usage: vcheck setup | <ID> [--tier t] | replay <path>")
        return 2
    if argv[0] == "setup":
        return setup()
    if argv[0] == "replay":
        data = json.load(open(argv[1]))
        mod = importlib.import_module("harness.props." + data["property"].lower())
        if "replay" not in data:
            print(json.dumps(data, indent=1))
            return 0
        mod.replay(data)
        return 0
    pid = argv[0].upper()
    if ensure_deps() != 0:
        print("could not install jsonschema from /opt/veriftools/wheels")
        return 2
    tier = None
    if "--tier" in argv:
        tier = argv[argv.index("--tier") + 1]
    tier = core.tier_from(tier)
    mod = importlib.import_module("harness.props." + pid.lower())
    try:
        return mod.run(tier)
    except Exception:   # noqa
        # the check's own machinery stopped on this tree (an exception nothing in it expects): the property is no longer shown
        # to hold; reported as such, with the traceback as the replay
        import traceback
        tb = traceback.format_exc()
        os.makedirs(os.path.join(core.BUILD, "replay"), exist_ok=True)
        path = os.path.join(core.BUILD, "replay", f"{pid}_check_stopped.json")
        json.dump(dict(property=pid, what="the check stopped with an exception before reaching its verdict: the correspondence "
                       "between the implementation and the harness / model no longer runs", traceback=tb), open(path, "w"), indent=1)
        last = tb.strip().split("\n")[-1][:300]
        print(f"# the check stopped with an exception on this tree ({last})")
        print(f"VIOLATION property={pid} replay={path} no-failing-input-found")
        return 1


if __name__ == "__main__":
    sys.exit(main(sys.argv[1:]))
