"""Generators and observer for serialization: universes with serialization features, well-typed values, options."""
import itertools

from harness import pyrun, gen_deser as G
from harness.core import coq_str, coq_list, coq_bool
from harness.descr import ty_src, ty_coq, universe_src, universe_coq, value_coq, default_coq

NONE = ("none",)


def gen_universe(rng, fields_set_p=0.25):
    """like gen_deser.gen_universe, plus serialization-only features"""
    u = G.gen_universe(rng, typed_defaults=True)
    # serialization of Dict[int, ...] keeps int keys: keys restricted to str-like types by gen_type(key=True) already
    for cid, c in enumerate(u["classes"]):
        c.setdefault("methods", [])
        c.setdefault("cls_order", [])
        if c["kind"] != "dataclass":
            continue
        names = [f["name"] for f in c["fields"]]
        for f in c["fields"]:
            r = rng.random()
            if not f["required"]:
                if r < 0.15:
                    f["skip_default"] = True
                elif r < 0.3 and f["ty"][0] != "obj":
                    f["undefined"] = True
                    f["default"] = ("undefined",)
                elif r < 0.4 and f["ty"][0] not in ("obj", "con"):
                    f["none_undef"] = True
                    f["default"] = ("none",)
                    f["ty"] = strip_none(f["ty"])
            if rng.random() < 0.15:
                f["skip_if"] = rng.choice(["none", "zero", "empty"])
            if rng.random() < 0.15:
                # after-targets are earlier fields only: no cyclic ordering (which is refused with ValueError)
                f["order"] = rng.choice([("order", -1), ("order", 1), ("order", 999)] +
                                        [("after", n) for n in names[:names.index(f["name"])]][:2])
        for k in range(rng.choice([0, 0, 1, 2])):
            mt = rng.choice([("int",), ("str",), ("union", [("int",), NONE]), ("coll", "list", ("int",))])
            res = {"int": ("int", 7), "str": ("str", "m"), "union": rng.choice([("int", 3), ("none",)]),
                   "coll": ("emptylist",)}[mt[0]]
            m = {"name": f"m{k}", "alias": rng.choice([f"m{k}", f"M{k}"]), "ty": mt, "result": res, "undefined": False,
                 "order": rng.choice([None, None, ("order", -1), ("after", names[0])] if names else [None])}
            if rng.random() < 0.2:
                m["undefined"] = True
                m["result"] = rng.choice([("undefined",), res])
            c["methods"].append(m)
        if rng.random() < fields_set_p:
            c["fields_set"] = True
        if rng.random() < 0.15 and names:
            c["cls_order"] = [(rng.choice(names), rng.choice([("order", 2), ("order", -2)]))]
    return u


def strip_none(t):
    if t[0] == "union":
        alts = [a for a in t[1] if tuple(a) != NONE]
        if not alts:
            return ("int",)
        return alts[0] if len(alts) == 1 else ("union", alts)
    if t == NONE:
        return ("int",)
    return t


def ser_ok_type(t, u, seen=None):
    """types whose serialization the model covers: no Literal alternative in unions, no nested union in union"""
    seen = seen if seen is not None else set()
    k = t[0]
    if k == "union":
        for a in t[1]:
            b = a
            while b[0] == "con":
                b = b[2]
            if b[0] == "union":
                return False
        return all(ser_ok_type(a, u, seen) for a in t[1])
    if k in ("coll", "con"):
        return ser_ok_type(t[2], u, seen)
    if k == "tuple":
        return all(ser_ok_type(a, u, seen) for a in t[1])
    if k == "map":
        return t[1][0] != "int" and ser_ok_type(t[1], u, seen) and ser_ok_type(t[2], u, seen)
    if k == "obj":
        if t[1] in seen:
            return True
        seen.add(t[1])
        return all(ser_ok_type(f["ty"], u, seen) for f in u["classes"][t[1]]["fields"])
    return True


def universe_ser_ok(u):
    return all(ser_ok_type(("obj", i), u) for i in range(len(u["classes"])))


# ------------------------------------------------------------------ values
class ValueGen:
    def __init__(self, rng, U, canonical=False):
        """canonical: values carry the classes deserialization builds (list for Sequence / Collection, set for AbstractSet,
        JSON-like values for Any)"""
        self.rng, self.U, self.u = rng, U, U.u
        self.canonical = canonical

    def value(self, t, depth=3, top=False):
        rng = self.rng
        k = t[0]
        if k == "none":
            return None
        if k == "bool":
            return rng.choice([True, False])
        if k == "int":
            return rng.choice([0, 1, 2, -1, 7])
        if k == "float":
            return rng.choice([0.0, 1.0, 1.5, -0.5, 2.25])
        if k == "str":
            return rng.choice(["", "a", "ab", "x"])
        if k == "any":
            if self.canonical:
                return rng.choice([None, 1, "a", 1.5, True, [1, "a"], {"k": [1]}, {"k": None}, [], {}])
            return rng.choice([None, 1, "a", 1.5, True, [1, "a"], (1, 2), {"k": [1]}, {"k": None}, [], {}])
        if k == "lit":
            return rng.choice(t[1])
        if k == "enum":
            E = self.U.mod.__dict__[f"E{t[1]}"]
            return rng.choice(list(E))
        if k == "con":
            return self.value(t[2], depth, top)
        if k == "coll":
            kind = t[1]
            setlike = kind in ("set", "frozenset", "abstractset")
            n = rng.choice([0, 1, 2, 3]) if depth > 0 else 0
            if setlike and not top:
                n = min(n, 1)
            elts = [self.value(t[2], depth - 1) for _ in range(n)]
            if kind == "list":
                return elts
            if kind == "vartuple":
                return tuple(elts)
            if kind in ("sequence", "collection"):
                return elts if self.canonical else rng.choice([list, tuple])(elts)
            try:
                if kind == "set":
                    return set(elts)
                if kind == "frozenset":
                    return frozenset(elts)
                return set(elts) if self.canonical else rng.choice([set, frozenset])(elts)
            except TypeError:
                return set() if kind == "set" else frozenset()
        if k == "tuple":
            return tuple(self.value(x, depth - 1) for x in t[1])
        if k == "map":
            n = rng.choice([0, 1, 2]) if depth > 0 else 0
            out = {}
            for _ in range(n):
                kk = self.value(t[1], 0)
                if not isinstance(kk, str):
                    kk = rng.choice(["a", "b"])
                out[kk] = self.value(t[2], depth - 1)
            return out
        if k == "union":
            alts = t[1]
            if depth <= 0 and NONE in alts:
                return None
            alt = rng.choice(alts)
            for _ in range(4):
                v = self.value(alt, depth - 1 if depth <= 0 else depth)
                # serialization uses the first alternative whose class matches: a value of the union is a value of that one
                first = next((a for a in alts if self.class_matches(a, v)), alt)
                if first is alt or tuple(first) == tuple(alt):
                    return v
                alt = first
            return v
        if k == "obj":
            return self.obj(t[1], depth)
        raise AssertionError(t)

    def class_matches(self, t, v):
        """isinstance(v, expected_class(t)) as union serialization computes it"""
        import collections.abc as abc
        import enum
        k = t[0]
        if k == "con":
            return self.class_matches(t[2], v)
        if k == "any":
            return True
        if k == "none":
            return v is None
        if k == "bool":
            return isinstance(v, bool)
        if k == "int":
            return isinstance(v, int)
        if k == "float":
            return isinstance(v, float)
        if k == "str":
            return isinstance(v, str)
        if k == "lit":
            return any(type(v) is type(x) or isinstance(v, type(x)) for x in t[1])
        if k == "enum":
            return isinstance(v, self.U.mod.__dict__[f"E{t[1]}"])
        if k == "tuple":
            return isinstance(v, tuple)
        if k == "map":
            return isinstance(v, abc.Mapping)
        if k == "obj":
            c = self.u["classes"][t[1]]
            return isinstance(v, dict) if c["kind"] == "typeddict" else type(v).__name__ == f"C{t[1]}"
        if k == "coll":
            cls = {"list": list, "sequence": abc.Sequence, "collection": abc.Collection, "abstractset": abc.Set, "set": set,
                   "frozenset": frozenset, "vartuple": tuple}[t[1]]
            return isinstance(v, cls)
        if k == "union":
            return any(self.class_matches(a, v) for a in t[1])
        return False

    def obj(self, cid, depth):
        rng = self.rng
        c = self.u["classes"][cid]
        cls = self.U.mod.__dict__[f"C{cid}"]
        kw = {}
        for f in c["fields"]:
            use_default = (not f["required"]) and (rng.random() < 0.45 or depth <= 0)
            if use_default:
                if c["kind"] == "typeddict" or rng.random() < 0.5:
                    continue
                # pass a value equal to the default explicitly
                kw[f["name"]] = self.default_value(f)
                continue
            if f.get("none_undef") and rng.random() < 0.4:
                kw[f["name"]] = None
                continue
            kw[f["name"]] = self.value(f["ty"], depth - 1)
        if c["kind"] == "typeddict":
            if rng.random() < 0.2 and not self.canonical:
                kw["extra_key"] = rng.choice([1, "z", [1]])
            return kw
        o = cls(**kw)
        if c.get("fields_set") and rng.random() < 0.4 and c["fields"] and not self.canonical:
            from apischema.fields import unset_fields, set_fields
            f = rng.choice(c["fields"])
            if rng.random() < 0.5:
                unset_fields(o, f["name"])
            else:
                set_fields(o, f["name"])
        return o

    def default_value(self, f):
        d = f["default"]
        if d[0] == "none":
            return None
        if d[0] == "undefined":
            from apischema import Undefined
            return Undefined
        if d[0] == "emptylist":
            return []
        return d[1]


def _json_image(x):
    """a canonical stand-in for what x serializes to (containers lose their class, enum members become their value)"""
    import dataclasses
    import enum
    if isinstance(x, enum.Enum):
        return _json_image(x.value)
    if isinstance(x, (set, frozenset)):
        return ("arr", tuple(sorted((_json_image(y) for y in x), key=repr)))
    if hasattr(x, "_fields") and isinstance(x, tuple):
        return ("obj", tuple((n, _json_image(getattr(x, n))) for n in x._fields))
    if isinstance(x, (list, tuple)):
        return ("arr", tuple(_json_image(y) for y in x))
    if isinstance(x, dict):
        return ("obj", tuple(sorted(((str(k), _json_image(y)) for k, y in x.items()), key=repr)))
    if dataclasses.is_dataclass(x):
        return ("obj", tuple((f.name, _json_image(getattr(x, f.name))) for f in dataclasses.fields(x)))
    return (type(x).__name__, x)


def satisfies(t, v, u, mod=None):
    """does the value respect the schema constraints carried by its type (a value *of* the type)"""
    import dataclasses
    k = t[0]
    if k == "con":
        c = t[1]
        if isinstance(v, (int, float)) and not isinstance(v, bool):
            if c.get("min") is not None and v < c["min"]: return False
            if c.get("max") is not None and v > c["max"]: return False
            if c.get("exc_min") is not None and v <= c["exc_min"]: return False
            if c.get("exc_max") is not None and v >= c["exc_max"]: return False
            if c.get("mult_of") is not None and v % c["mult_of"] != 0: return False
        if isinstance(v, str):
            if c.get("min_len") is not None and len(v) < c["min_len"]: return False
            if c.get("max_len") is not None and len(v) > c["max_len"]: return False
            if c.get("pattern") is not None and not v.startswith(c["pattern"]): return False
        if isinstance(v, (list, tuple, set, frozenset)):
            if c.get("min_items") is not None and len(v) < c["min_items"]: return False
            if c.get("max_items") is not None and len(v) > c["max_items"]: return False
            if c.get("unique"):
                items = list(v)
                # distinct Python values may have equal JSON images ([None] and frozenset({None}), E.A and its value)
                imgs = [_json_image(x) for x in items]
                if any(x == y or imgs[i] == imgs[i + 1 + j]
                       for i, x in enumerate(items) for j, y in enumerate(items[i + 1:])): return False
        if c.get("min_props") is not None or c.get("max_props") is not None:
            base = t[2]
            while base[0] == "con":
                base = base[2]
            if base[0] == "map" and isinstance(v, dict):
                if c.get("min_props") is not None and len(v) < c["min_props"]: return False
                if c.get("max_props") is not None and len(v) > c["max_props"]: return False
            elif isinstance(v, dict) or dataclasses.is_dataclass(v) or hasattr(v, "_fields"):
                return False          # property counts of objects depend on the omission rules: not generated
        return satisfies(t[2], v, u)
    if k == "coll":
        return isinstance(v, (list, tuple, set, frozenset)) and all(satisfies(t[2], x, u) for x in v)
    if k == "tuple":
        return isinstance(v, tuple) and len(v) == len(t[1]) and all(satisfies(a, x, u) for a, x in zip(t[1], v))
    if k == "map":
        return isinstance(v, dict) and all(satisfies(t[1], kk, u) and satisfies(t[2], x, u) for kk, x in v.items())
    if k == "union":
        return any(satisfies(a, v, u) for a in t[1])
    if k == "lit":
        return any(type(v) is type(x) and v == x for x in t[1])
    if k == "enum":
        import enum
        return isinstance(v, enum.Enum)
    if k == "int":
        return isinstance(v, int) and not isinstance(v, bool)
    if k == "float":
        return isinstance(v, float)
    if k == "str":
        return isinstance(v, str)
    if k == "bool":
        return isinstance(v, bool)
    if k == "none":
        return v is None
    if k == "obj":
        c = u["classes"][t[1]]
        if c["kind"] == "typeddict":
            if not isinstance(v, dict) or any(f["required"] and f["name"] not in v for f in c["fields"]):
                return False
        elif type(v).__name__ != f"C{t[1]}":
            return False
        for f in c["fields"]:
            if isinstance(v, dict):
                if f["name"] not in v:
                    continue
                x = v[f["name"]]
            else:
                x = getattr(v, f["name"])
            from apischema import Undefined
            if x is Undefined or (x is None and (f.get("none_undef") or not f["required"])):
                continue
            ft = ("con", f["con"], f["ty"]) if f.get("con") else f["ty"]
            if not satisfies(ft, x, u):
                return False
        return True
    return True


def in_fragment(v):
    """floats must be quarter multiples"""
    import dataclasses
    import enum
    if isinstance(v, float):
        return v != v or v in (float("inf"), float("-inf")) or (v * 4 == int(v * 4) and abs(v) < 2 ** 60)
    if isinstance(v, (list, tuple, set, frozenset)):
        return all(in_fragment(x) for x in v)
    if isinstance(v, dict):
        return all(in_fragment(k) and in_fragment(x) for k, x in v.items())
    if dataclasses.is_dataclass(v) and not isinstance(v, type):
        return all(in_fragment(getattr(v, f.name)) for f in dataclasses.fields(v))
    return True


# ------------------------------------------------------------------ options
def gen_sopts(rng, pass_through=True):
    pt = {k: (rng.random() < 0.2 if pass_through else False) for k in ("any", "collections", "dataclasses", "enums", "tuple")}
    if pt["collections"]:
        pt["tuple"] = True
    return {"additional_properties": rng.random() < 0.3, "exclude_defaults": rng.random() < 0.25,
            "exclude_none": rng.random() < 0.25, "exclude_unset": rng.random() < 0.7, "no_copy": rng.random() < 0.6,
            "aliaser": rng.choice(["id", "id", "prefix"]), "pt": pt}


def sopts_coq(o):
    pt = o["pt"]
    return (f"(mkSO {coq_bool(o['additional_properties'])} {coq_bool(o['exclude_defaults'])} {coq_bool(o['exclude_none'])} "
            f"{coq_bool(o['exclude_unset'])} {coq_bool(o['no_copy'])} {coq_bool(pt['any'])} {coq_bool(pt['collections'])} "
            f"{coq_bool(pt['dataclasses'])} {coq_bool(pt['enums'])} {coq_bool(pt['tuple'])} {G.ALIASERS[o['aliaser']][1]})")


def sopts_kwargs(o):
    pyrun.ensure_repo_on_path()
    from apischema import PassThroughOptions
    pt = o["pt"]
    return dict(additional_properties=o["additional_properties"], exclude_defaults=o["exclude_defaults"],
                exclude_none=o["exclude_none"], exclude_unset=o["exclude_unset"], no_copy=o["no_copy"],
                aliaser=G.ALIASERS[o["aliaser"]][0], check_type=False, fall_back_on_any=False,
                pass_through=PassThroughOptions(any=pt["any"], collections=pt["collections"], dataclasses=pt["dataclasses"],
                                                enums=pt["enums"], tuple=pt["tuple"]))


HEADER = """From Coq Require Import List String ZArith Bool.
From AV Require Import Core.Json Core.Errors Core.Text Core.Util Small.Ordering Deser.Model Deser.Run Ser.Model Ser.Spec Ser.Run.
Import ListNotations.
Open Scope string_scope.
Definition al_id : string -> string := fun s => s.
Definition al_p : string -> string := fun s => "p_" ++ s.
"""


def observe(U, t, v, opts):
    pyrun.ensure_repo_on_path()
    from apischema import serialize
    tp = U.type(t)
    kw = sopts_kwargs(opts)
    try:
        return "ok", serialize(tp, v, **kw)
    except RecursionError:
        return "crash", "RecursionError"
    except Exception as e:
        name = type(e).__name__
        return ("typeerror" if name == "TypeCheckError" else "crash"), name


def out_coq(v_in, out, U):
    """canonical Coq term of the output (the input's sets are emitted in iteration order, which is the order
    list(obj) produces)"""
    return value_coq(out, U.mod)


def obs_coq(kind, payload, v_in, U):
    if kind == "ok":
        return f"(OOk {out_coq(v_in, payload, U)})"
    if kind == "typeerror":
        return "OTypeError"
    return f"(OCrash {coq_str(str(payload))})"


CASE_TYPE = "univ * sopts * ty * value * sobs"


def case_coq(uname, opts, t, v, obs, U):
    return f"({uname}, {sopts_coq(opts)}, {ty_coq(t)}, {value_coq(v, U.mod, sort_sets=False)}, {obs})"
