"""Concurrent first use of fresh types (run with PYTHONPATH=<repo>): prints a JSON report.

usage: c20_worker.py <mode> <seed> <rounds> <nthreads>
 mode = preempt : random preemption (1 microsecond switch interval, barrier start)
 mode = stagger : systematic single preemption: for every pair of operations sharing types and every yield point k of the
                  first one, thread w0 is paused at point k while w1 runs (seed = shard index, rounds = number of shards)
 mode = yield   : yield points injected at every access of the recursion cache and at lazy method initialisation,
                  threads released according to a pseudo-random schedule derived from the seed"""
import json
import random
import sys
import threading
import time
from dataclasses import dataclass, field, make_dataclass
from typing import Dict, Generic, List, Optional, TypeVar

import apischema
from apischema import deserialize, serialize, ValidationError
from apischema.json_schema import deserialization_schema, serialization_schema

mode, seed, rounds, nthreads = sys.argv[1], int(sys.argv[2]), int(sys.argv[3]), int(sys.argv[4])
rng = random.Random(seed)

T = TypeVar("T")


def fresh_types(k):
    """a fresh family of classes: plain, self-recursive, mutually recursive (2- and 3-cycles), generic"""
    ns = {}
    src = f"""
from dataclasses import dataclass, field
from typing import Dict, Generic, List, Optional, TypeVar
T = TypeVar("T")
@dataclass
class Plain{k}:
    a: int = 0
    b: Optional[str] = None
@dataclass
class Tree{k}:
    v: int = 0
    children: List["Tree{k}"] = field(default_factory=list)
@dataclass
class X{k}:
    y: Optional["Y{k}"] = None
    n: int = 0
@dataclass
class Y{k}:
    x: Optional["X{k}"] = None
    p: Optional["Plain{k}"] = None
@dataclass
class A3{k}:
    b: Optional["B3{k}"] = None
@dataclass
class B3{k}:
    c: List["C3{k}"] = field(default_factory=list)
@dataclass
class C3{k}:
    a: Optional["A3{k}"] = None
    leaf: Optional["Plain{k}"] = None
@dataclass
class Box{k}(Generic[T]):
    item: T
    more: List[T] = field(default_factory=list)
"""
    import types
    mod = types.ModuleType(f"c20_types_{k}")
    sys.modules[mod.__name__] = mod
    exec(compile(src, f"<c20_types_{k}>", "exec"), mod.__dict__)
    return mod


def operations(mod, k):
    P, Tr, X, Y, A3, B3, C3, Box = (getattr(mod, n + str(k)) for n in ("Plain", "Tree", "X", "Y", "A3", "B3", "C3", "Box"))
    return [
        ("des_plain", lambda: deserialize(P, {"a": 1, "b": "s"})),
        ("des_tree", lambda: deserialize(Tr, {"v": 1, "children": [{"v": 2, "children": [{"v": 3}]}]})),
        ("des_x", lambda: deserialize(X, {"y": {"x": {"y": None, "n": 2}, "p": {"a": 3}}})),
        ("des_y", lambda: deserialize(Y, {"x": {"y": {"x": None}}})),
        ("des_a3", lambda: deserialize(A3, {"b": {"c": [{"a": {"b": None}, "leaf": {"a": 1}}]}})),
        ("des_c3", lambda: deserialize(C3, {"a": {"b": {"c": []}}})),
        ("des_bad", lambda: deserialize(X, {"y": {"x": {"n": "bad"}}})),
        ("ser_x", lambda: serialize(X, X(Y(X(None, 5)), 1))),
        ("ser_tree", lambda: serialize(Tr, Tr(1, [Tr(2, [Tr(3)])]))),
        ("ser_a3", lambda: serialize(A3, A3(B3([C3(A3(None), P(1))])))),
        ("des_box", lambda: deserialize(Box[int], {"item": 1, "more": [2]})),
        ("des_boxx", lambda: deserialize(Box[X], {"item": {"n": 1}})),
        ("schema_x", lambda: deserialization_schema(X)),
        ("schema_tree", lambda: serialization_schema(Tr)),
        ("schema_a3", lambda: deserialization_schema(A3)),
    ]


def outcome(f):
    try:
        return ["ok", repr(f())]
    except ValidationError as e:
        return ["verr", e.errors]
    except BaseException as e:
        return ["exc", type(e).__name__, str(e)[:120]]


# ---------------------------------------------------------------- yield injection
class Sched:
    def __init__(self, order):
        self.order, self.pos, self.cv = order, 0, threading.Condition()

    def point(self):
        me = threading.current_thread().name
        if not me.startswith("w"):
            return
        with self.cv:
            deadline = time.time() + 0.02
            while self.pos < len(self.order) and self.order[self.pos] != me:
                left = deadline - time.time()
                if left <= 0:
                    self.pos += 1          # the scheduled thread is blocked or finished: skip its turn
                    self.cv.notify_all()
                    deadline = time.time() + 0.02
                    continue
                self.cv.wait(left)
            if self.pos < len(self.order):
                self.pos += 1
            self.cv.notify_all()


SCHED = None


def install_yields():
    import apischema.recursion as rec
    import apischema.deserialization.methods as dm
    import apischema.serialization.methods as sm

    class YDict(dict):
        def __contains__(self, k):
            if SCHED:
                SCHED.point()
            return dict.__contains__(self, k)

        def __setitem__(self, k, v):
            if SCHED:
                SCHED.point()
            dict.__setitem__(self, k, v)

        def __getitem__(self, k):
            if SCHED:
                SCHED.point()
            return dict.__getitem__(self, k)

    store = {}

    def recursion_cache(checker_cls, *default_conversion):      # (checker, default conversion) since fix 709dee9
        key = (checker_cls,) + default_conversion
        if key not in store:
            store[key] = YDict()
        return store[key]
    rec.recursion_cache = recursion_cache
    orig_reset = apischema.cache.reset

    def reset():
        store.clear()
        orig_reset()
    apischema.cache.reset = reset
    for M in (dm.RecMethod, sm.RecMethod):
        orig = M.__post_init__

        def post(self, orig=orig):
            orig(self)
            lazy = self.lazy

            def lazy2():
                if SCHED:
                    SCHED.point()
                r = lazy()
                if SCHED:
                    SCHED.point()
                return r
            self.lazy = lazy2
        M.__post_init__ = post


class Pause:
    """systematic single preemption: thread w0 is descheduled at its k-th yield point until w1 has finished (or 50 ms passed:
    w1 is blocked on a lock w0 holds)"""
    def __init__(self, k):
        self.k, self.n, self.start, self.done = k, 0, threading.Event(), threading.Event()

    def point(self):
        if threading.current_thread().name != "w0":
            return
        if self.n == self.k:
            self.start.set()
            self.done.wait(0.05)
        self.n += 1


def stagger(report):
    """every pair (first use by w0, operation of w1 sharing types with it) x every yield point of w0's first use"""
    global SCHED
    names = [n for n, _ in operations(fresh_types(seed * 10000 + 9999), seed * 10000 + 9999)]
    cross = [("des_x", "des_y"), ("des_y", "des_x"), ("des_x", "ser_x"), ("des_a3", "des_c3"), ("des_c3", "des_a3"),
             ("schema_x", "des_x"), ("des_x", "schema_x"), ("des_boxx", "des_x"), ("des_x", "des_bad"), ("ser_a3", "des_a3"),
             ("des_tree", "schema_tree"), ("ser_tree", "des_tree")]
    pairs = ([(n, n) for n in names] + cross)[seed % max(rounds, 1)::max(rounds, 1)]     # shard = seed, number of shards = rounds
    counter = 0
    for a, b in pairs:
        k = 0
        while True:
            counter += 1
            kk = (seed + 1) * 100000 + counter
            apischema.cache.reset()
            mod = fresh_types(kk)
            ops = dict(operations(mod, kk))
            SCHED = P = Pause(k)
            res = {}

            def w0():
                res["w0"] = outcome(ops[a])
                P.start.set()

            def w1():
                P.start.wait(10)
                res["w1"] = outcome(ops[b])
                P.done.set()
            ths = [threading.Thread(target=w0, name="w0"), threading.Thread(target=w1, name="w1")]
            for t in ths:
                t.start()
            for t in ths:
                t.join(60)
            SCHED = None
            npoints = P.n
            later = {n: outcome(ops[n]) for n in {a, b}}
            apischema.cache.reset()
            mod2 = fresh_types(kk + 5000)
            ops2 = dict(operations(mod2, kk + 5000))
            ref = {n: outcome(ops2[n]) for n in {a, b}}

            def norm(o):
                return json.dumps(o).replace(str(kk + 5000), "K").replace(str(kk), "K")
            report["rounds"] += 1
            report["ops"] += 2
            if any(t.is_alive() for t in ths):
                report["mismatches"].append(dict(kind="deadlock or timeout", pair=[a, b], point=k))
            for w, n in (("w0", a), ("w1", b)):
                if w in res and norm(res[w]) != norm(ref[n]):
                    report["mismatches"].append(dict(kind="concurrent result differs from sequential", op=n, thread=w, pair=[a, b],
                                                     point=k, concurrent=res[w], sequential=ref[n]))
                if norm(later[n]) != norm(ref[n]):
                    report["mismatches"].append(dict(kind="later result changed by the concurrent phase", op=n, pair=[a, b], point=k,
                                                     later=later[n], sequential=ref[n]))
            k += 1
            if k > npoints or len(report["mismatches"]) > 5:
                break
        if len(report["mismatches"]) > 5:
            break


report = {"mode": mode, "seed": seed, "rounds": 0, "mismatches": [], "exceptions": 0, "ops": 0}
if mode == "stagger":
    install_yields()
    stagger(report)
    print(json.dumps(report))
    sys.exit(0)
if mode == "yield":
    install_yields()
else:
    sys.setswitchinterval(1e-6)

for r in range(rounds):
    k = seed * 10000 + r
    mod = fresh_types(k)
    ops = operations(mod, k)
    if rng.random() < 0.5:                      # every thread performs the same first uses, in the same order
        same = rng.sample(ops, rng.randint(1, 4))
        per_thread = [list(same) for _ in range(nthreads)]
    else:
        per_thread = [rng.sample(ops, rng.randint(2, 5)) for _ in range(nthreads)]
    results = [None] * nthreads
    barrier = threading.Barrier(nthreads)
    if mode == "yield":
        order = []                      # bursts: a thread runs through several yield points before the next is released
        for _ in range(rng.randint(6, 40)):
            order += [f"w{rng.randrange(nthreads)}"] * rng.choice([1, 1, 2, 3, 5, 8, 13, 21])
        SCHED = Sched(order)

    def work(i):
        barrier.wait()
        out = []
        for n, f in per_thread[i]:
            if SCHED:
                SCHED.point()          # late joiners: an operation may start while another thread is inside a first use
            out.append((n, outcome(f)))
        results[i] = out
    ths = [threading.Thread(target=work, args=(i,), name=f"w{i}") for i in range(nthreads)]
    for t in ths:
        t.start()
    for t in ths:
        t.join(60)
    SCHED = None
    alive = [t.name for t in ths if t.is_alive()]
    # later results (same caches) and the sequential reference (cold caches, fresh equal types)
    later = {n: outcome(f) for n, f in ops}
    apischema.cache.reset()
    mod2 = fresh_types(k + 5000)
    ref = {n: outcome(f) for n, f in operations(mod2, k + 5000)}

    def norm(o):
        return json.dumps(o).replace(str(k + 5000), "K").replace(str(k), "K")
    report["rounds"] += 1
    if alive:
        report["mismatches"].append(dict(round=r, kind="deadlock or timeout", threads=alive))
    for i, res in enumerate(results):
        for n, o in (res or []):
            report["ops"] += 1
            if o[0] == "exc":
                report["exceptions"] += 1
            if norm(o) != norm(ref[n]):
                report["mismatches"].append(dict(round=r, kind="concurrent result differs from sequential", op=n,
                                                 concurrent=o, sequential=ref[n], threads=[[n2 for n2, _ in p] for p in per_thread]))
    for n, o in later.items():
        if norm(o) != norm(ref[n]):
            report["mismatches"].append(dict(round=r, kind="later result changed by the concurrent phase", op=n, later=o,
                                             sequential=ref[n], threads=[[n2 for n2, _ in p] for p in per_thread]))
    if len(report["mismatches"]) > 5:
        break
print(json.dumps(report))
