"""Regenerate seeded/RESULTS.md from the meta.json files written by harness/seeded_run.py."""
import json, os, re

ROOT = "/verif/seeded"


def title(meta):
    txt = meta.get("needs_to_manifest") or meta.get("title") or ""
    for line in txt.split("\n"):
        line = line.strip().lstrip("#").strip()
        if line:
            return re.sub(r"\s+", " ", line)[:110]
    return ""


def main():
    rows, n, det = [], 0, 0
    for d in sorted(os.listdir(ROOT)):
        p = os.path.join(ROOT, d, "meta.json")
        if not os.path.exists(p):
            continue
        m = json.load(open(p))
        by = m.get("detected_by") or {}
        n += 1
        det += bool(by.get("detected"))
        msg = (by.get("first_message") or "").replace("|", "\\|").replace("\n", " ")[:150]
        rows.append(f"| {d} | {title(m).replace('|', chr(92) + '|')} | {'yes' if by.get('detected') else 'NO'} | {by.get('kind') or ''} | {msg} |")
    out = ["# Seeded changes and their detection (quick tier of the property's own check)", "",
           "Each change keeps the 283 tests green and breaks the property (confirmed with its demo before being kept).",
           "`harness/seeded_run.py` applies the patch to /repo, runs `./vcheck <id> --tier quick`, restores the tree;",
           "`harness/seeded_results.py` writes this table from the recorded outcomes.", "",
           f"Detected: {det} of {n}.", "",
           "| change | what it is | detected | how | first message |", "|---|---|---|---|---|"] + rows
    open(os.path.join(ROOT, "RESULTS.md"), "w").write("\n".join(out) + "\n")
    print(f"{det}/{n}")


if __name__ == "__main__":
    main()
