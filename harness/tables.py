"""Fail-closed translator: reads the working tree of the repository with `ast` and regenerates
coq/Gen/Tables.v (data and wiring the Coq theorems are stated against).

Anything it cannot read is reported (returned as a list of error strings) and the corresponding
table is emitted in a form that makes the dependent obligation fail rather than silently pass.
"""
import ast
import os

from harness import core


def _src(rel):
    return open(os.path.join(core.REPO, "apischema", rel)).read()


def _mod(rel):
    return ast.parse(_src(rel))


def cstr(s):
    return core.coq_str(s)


class Cannot(Exception):
    pass


# ------------------------------------------------------------------ coercion.py

def coercion_tables():
    m = _mod("deserialization/coercion.py")
    pairs, none_values = None, None
    for node in m.body:
        if isinstance(node, ast.Assign) and len(node.targets) == 1 and isinstance(node.targets[0], ast.Name):
            n = node.targets[0].id
            if n == "_bool_pairs":
                pairs = ast.literal_eval(node.value)
            if n == "STR_NONE_VALUES":
                none_values = sorted(ast.literal_eval(node.value))
    if pairs is None or none_values is None:
        raise Cannot("coercion.py: _bool_pairs / STR_NONE_VALUES not found as literals")
    for p in pairs:
        if not (isinstance(p, tuple) and len(p) == 2 and all(isinstance(x, str) for x in p)):
            raise Cannot("coercion.py: _bool_pairs has an unexpected shape")
    # the loop that fills STR_TO_BOOL must be the known one: (false, False), (true, True), key lower-cased
    loop = [n for n in m.body if isinstance(n, ast.For)]
    if len(loop) != 1 or "STR_TO_BOOL[s.lower()] = value" not in ast.unparse(loop[0]) \
            or "((false, False), (true, True))" not in ast.unparse(loop[0]):
        raise Cannot("coercion.py: the loop filling STR_TO_BOOL changed shape")
    table = []
    for f, t in pairs:
        table.append((f.lower(), False))
        table.append((t.lower(), True))
    return table, none_values


# ------------------------------------------------------------------ settings.py error templates

def error_templates():
    m = _mod("settings.py")
    out = {}
    for node in ast.walk(m):
        if isinstance(node, ast.ClassDef) and node.name == "errors":
            for st in node.body:
                if isinstance(st, ast.AnnAssign) and isinstance(st.target, ast.Name):
                    try:
                        out[st.target.id] = ast.literal_eval(st.value)
                    except Exception:
                        raise Cannot(f"settings.errors.{st.target.id} is not a literal")
    need = ["minimum", "maximum", "exclusive_minimum", "exclusive_maximum", "multiple_of", "min_length",
            "max_length", "pattern", "min_items", "max_items", "unique_items", "min_properties",
            "max_properties", "one_of", "unexpected_property", "missing_property"]
    for k in need:
        if k not in out or not isinstance(out[k], str):
            raise Cannot(f"settings.errors.{k} missing")
    return {k: out[k] for k in need}


def json_type_names():
    m = _mod("json_schema/types.py")
    enum_vals, mapping = {}, None
    for node in m.body:
        if isinstance(node, ast.ClassDef) and node.name == "JsonType":
            for st in node.body:
                if isinstance(st, ast.Assign) and isinstance(st.value, ast.Constant):
                    enum_vals[st.targets[0].id] = st.value.value
        if isinstance(node, ast.Assign) and getattr(node.targets[0], "id", None) == "TYPE_TO_JSON_TYPE":
            mapping = []
            for k, v in zip(node.value.keys, node.value.values):
                mapping.append((ast.unparse(k), enum_vals[v.attr]))
    if not mapping:
        raise Cannot("json_schema/types.py: TYPE_TO_JSON_TYPE not found")
    bt = [n for n in m.body if isinstance(n, ast.FunctionDef) and n.name == "bad_type"]
    if len(bt) != 1:
        raise Cannot("bad_type not found")
    return mapping, ast.unparse(bt[0])


# ------------------------------------------------------------------ versions.py

def versions():
    m = _mod("json_schema/versions.py")
    unsupported, vers = None, {}
    for node in m.body:
        if isinstance(node, ast.Assign):
            t = node.targets[0]
            if isinstance(t, ast.Name) and t.id == "OPEN_API_3_0_UNSUPPORTED":
                unsupported = ast.literal_eval(node.value)
            if isinstance(t, ast.Attribute) and isinstance(t.value, ast.Name) and t.value.id == "JsonSchemaVersion":
                args = node.value.args
                vals = []
                for a in args:
                    if isinstance(a, ast.Name):
                        vals.append("fn:" + a.id)
                    else:
                        vals.append(ast.literal_eval(a))
                vers[t.attr] = vals
    if unsupported is None or set(vers) != {"DRAFT_2020_12", "DRAFT_2019_09", "DRAFT_7", "OPEN_API_3_0", "OPEN_API_3_1"}:
        raise Cannot("versions.py: constants not found")
    return unsupported, vers


# ------------------------------------------------------------------ cache wiring (C09)

REGISTRIES = [
    # (module, variable, mutation helper functions that write into it)
    ("conversions/converters.py", "_deserializers"),
    ("conversions/converters.py", "_serializers"),
    ("objects/fields.py", "_class_fields"),
    ("type_names.py", "_type_names"),
    ("schemas.py", "_schemas"),
    ("aliases.py", "_class_aliasers"),
    ("ordering.py", "_order_overriding"),
    ("validation/validators.py", "_validators"),
    ("dependencies.py", "_dependent_requireds"),
    ("discriminators.py", "_discriminators"),
    ("serialization/serialized_methods.py", "_serialized_methods"),
]


def _is_reset_stmt(st):
    return isinstance(st, ast.Expr) and isinstance(st.value, ast.Call) \
        and ast.unparse(st.value.func) in ("reset", "cache.reset", "apischema.cache.reset")


def _calls_reset(fn):
    """the reset call must be a top-level statement of the body: a conditional reset is not a reset"""
    return any(_is_reset_stmt(st) for st in fn.body)


def _mutation_reset(fn, var):
    """in-place mutations of `var[...]` (directly or through a local alias `x = var[...]`) in fn: returns
    (has_mutation, every mutation is followed by a reset in its own block or an enclosing one)"""
    aliases = set()
    for n in ast.walk(fn):
        if isinstance(n, ast.Assign) and len(n.targets) == 1 and isinstance(n.targets[0], ast.Name) \
                and isinstance(n.value, ast.Subscript) and ast.unparse(n.value.value) == var:
            aliases.add(n.targets[0].id)
    MUT = ("append", "extend", "add", "update", "insert", "setdefault", "remove", "clear", "pop")

    def is_mut(n):
        if isinstance(n, ast.Call) and isinstance(n.func, ast.Attribute) and n.func.attr in MUT:
            tgt = n.func.value
            if isinstance(tgt, ast.Subscript) and ast.unparse(tgt.value) == var:
                return True
            if isinstance(tgt, ast.Name) and tgt.id in aliases:
                return True
        if isinstance(n, (ast.Assign, ast.AugAssign)):
            tgts = n.targets if isinstance(n, ast.Assign) else [n.target]
            for t in tgts:
                if isinstance(t, ast.Subscript):
                    b = t.value
                    if isinstance(b, ast.Subscript) and ast.unparse(b.value) == var:
                        return True
                    if isinstance(b, ast.Name) and b.id in aliases:
                        return True
        return False

    found, ok = [False], [True]

    def visit_block(stmts, reset_after_outer):
        for i, st in enumerate(stmts):
            later_reset = reset_after_outer or any(_is_reset_stmt(x) for x in stmts[i + 1:])
            if isinstance(st, (ast.FunctionDef, ast.AsyncFunctionDef, ast.ClassDef)):
                continue    # nested definitions are analysed on their own
            here = any(is_mut(n) for n in ast.walk(st)) if not isinstance(st, (ast.If, ast.For, ast.While, ast.With, ast.Try)) else False
            if here:
                found[0] = True
                if not later_reset:
                    ok[0] = False
            for field in ("body", "orelse", "finalbody"):
                sub = getattr(st, field, None)
                if isinstance(sub, list) and sub and isinstance(sub[0], ast.stmt) and not isinstance(st, (ast.FunctionDef, ast.ClassDef)):
                    visit_block(sub, later_reset)
            if isinstance(st, ast.Try):
                for h in st.handlers:
                    visit_block(h.body, later_reset)
    visit_block(fn.body, False)
    return found[0], ok[0]


def cache_wiring():
    """Rows: (name, kind, resets) where kind in set/del/inplace/settings and resets is a bool read from the source."""
    rows = []
    cm = _mod("cache.py")
    cad = [n for n in cm.body if isinstance(n, ast.ClassDef) and n.name == "CacheAwareDict"]
    if len(cad) != 1:
        raise Cannot("cache.py: CacheAwareDict not found")
    meths = {f.name: f for f in cad[0].body if isinstance(f, ast.FunctionDef)}
    for need in ("__setitem__", "__delitem__", "__getitem__"):
        if need not in meths:
            raise Cannot(f"CacheAwareDict.{need} missing")
    set_resets = _calls_reset(meths["__setitem__"])
    del_resets = _calls_reset(meths["__delitem__"])
    # every other mutating method defined on the class
    for extra in ("pop", "clear", "popitem", "setdefault", "update"):
        if extra in meths and not _calls_reset(meths[extra]):
            raise Cannot(f"CacheAwareDict.{extra} is overridden without reset (not understood)")
    for rel, var in REGISTRIES:
        src = _src(rel)
        m = ast.parse(src)
        wrapped = None
        for node in ast.walk(m):
            tgt = None
            if isinstance(node, ast.AnnAssign) and isinstance(node.target, ast.Name):
                tgt, val = node.target.id, node.value
            elif isinstance(node, ast.Assign) and isinstance(node.targets[0], ast.Name):
                tgt, val = node.targets[0].id, node.value
            if tgt == var and val is not None:
                wrapped = isinstance(val, ast.Call) and ast.unparse(val.func) == "CacheAwareDict"
        if wrapped is None:
            raise Cannot(f"{rel}: registry {var} not found")
        # in-place mutations through __getitem__: `var[k].append(...)`, `var[k][k2] = ...`, `var[k].x = ...`
        inplace_unreset = []
        for fn in [n for n in ast.walk(m) if isinstance(n, (ast.FunctionDef, ast.AsyncFunctionDef))]:
            has, ok = _mutation_reset(fn, var)
            if has and not ok:
                inplace_unreset.append(fn.name)
        rows.append((var, "set", bool(wrapped and set_resets)))
        rows.append((var, "del", bool(wrapped and del_resets)))
        rows.append((var, "inplace", not inplace_unreset))
    # settings classes
    sm = _mod("settings.py")
    reset_meta = [n for n in sm.body if isinstance(n, ast.ClassDef) and n.name == "ResetCache"]
    if len(reset_meta) != 1:
        raise Cannot("settings.py: ResetCache not found")
    sa = [f for f in reset_meta[0].body if isinstance(f, ast.FunctionDef) and f.name == "__setattr__"]
    meta_resets = bool(sa) and _calls_reset(sa[0])
    metas = {"ResetCache": meta_resets}
    for n in sm.body:
        if isinstance(n, ast.ClassDef) and any(ast.unparse(b) == "ResetCache" for b in n.bases):
            metas[n.name] = meta_resets and not any(
                isinstance(f, ast.FunctionDef) and f.name == "__setattr__" for f in n.body)

    def cls_resets(c):
        for kw in c.keywords:
            if kw.arg == "metaclass":
                return metas.get(ast.unparse(kw.value), False)
        return False

    st = [n for n in sm.body if isinstance(n, ast.ClassDef) and n.name == "settings"]
    if len(st) != 1:
        raise Cannot("settings.py: settings not found")
    rows.append(("settings", "settings", cls_resets(st[0])))
    for sub in st[0].body:
        if isinstance(sub, ast.ClassDef):
            rows.append(("settings." + sub.name, "settings", cls_resets(sub)))
    return rows


REQUIRED_CACHED = [
    ("deserialization/__init__.py", "deserialization_method_factory"),
    ("serialization/__init__.py", "serialization_method_factory"),
    ("recursion.py", "recursion_cache"),
    ("recursion.py", "is_recursive"),
    ("objects/getters.py", "object_fields"),
]


def cached_functions():
    """memoised module-level functions must be registered with apischema.cache.cache (so that reset() clears them)"""
    rows = []
    for rel, name in REQUIRED_CACHED:
        m = _mod(rel)
        fns = [n for n in m.body if isinstance(n, ast.FunctionDef) and n.name == name]
        if len(fns) != 1:
            raise Cannot(f"{rel}: function {name} not found (caching of it cannot be read)")
        decos = [ast.unparse(d) for d in fns[0].decorator_list]
        if any(d == "cache" or d == "cache.cache" for d in decos):
            rows.append((name, True))
        elif any("lru_cache" in d or d.endswith("cache") or "cache(" in d for d in decos):
            rows.append((name, False))
        elif name == "recursion_cache":
            raise Cannot("recursion.py: recursion_cache is no longer a @cache function")
        else:
            rows.append((name, True))     # not memoised at all: nothing can go stale
    # the registration itself: cache() must append to _cached, reset() must clear every registered function
    cm = _mod("cache.py")
    src = {n.name: ast.unparse(n) for n in cm.body if isinstance(n, ast.FunctionDef)}
    if "_cached.append(cached)" not in src.get("cache", "") or "cached.cache_clear()" not in src.get("reset", "") \
            or "for cached in _cached" not in src.get("reset", ""):
        raise Cannot("cache.py: cache()/reset() changed shape")
    return rows


def set_size_registration():
    """Does cache.set_size register with `_cached` (the list reset() walks) every cache object it installs?
    Returns True when set_size installs no new cache object at all."""
    cm = _mod("cache.py")
    fns = [n for n in cm.body if isinstance(n, ast.FunctionDef) and n.name == "set_size"]
    if not fns:
        return True                                   # no resizing: the caches of cache() are the only ones
    if len(fns) != 1:
        raise Cannot("cache.py: set_size defined twice")
    fn = fns[0]
    created = [n for n in ast.walk(fn) if isinstance(n, ast.Call) and isinstance(n.func, ast.Call)
               and ast.unparse(n.func.func) in ("lru_cache", "functools.lru_cache")]
    if not created:
        if "lru_cache" in ast.unparse(fn):
            raise Cannot("cache.py: set_size creates caches in a way that is not understood")
        return True
    # every created cache must be bound to a name and that name appended to _cached in the same block
    for call in created:
        owner = None
        for blk in [n for n in ast.walk(fn) if hasattr(n, "body") and isinstance(n.body, list)]:
            for st in blk.body:
                if isinstance(st, ast.Assign) and st.value is call and len(st.targets) == 1 and isinstance(st.targets[0], ast.Name):
                    owner = (blk, st.targets[0].id)
        if owner is None:
            return False                              # installed without being kept: cannot be registered
        blk, name = owner
        if not any(isinstance(st, ast.Expr) and ast.unparse(st.value) == f"_cached.append({name})" for st in blk.body):
            return False
    return True


# ------------------------------------------------------------------ constraints.py: how a constraint given twice is merged

def constraint_merges():
    """(field name, JSON schema keyword, merge operation) for every field of `Constraints`; the merge operation is resolved to
    one of max / min / or / lcm / fail, by reading the aliases (min_, max_ = min, max) and the bodies of the merge helpers."""
    m = _mod("constraints.py")
    resolved = {}
    for node in m.body:
        if isinstance(node, ast.Assign) and ast.unparse(node).replace(" ", "") == "min_,max_=(min,max)":
            resolved["min_"], resolved["max_"] = "min", "max"
        if isinstance(node, ast.Assign) and ast.unparse(node).replace(" ", "") == "min_,max_=min,max":
            resolved["min_"], resolved["max_"] = "min", "max"
        if isinstance(node, ast.FunctionDef) and node.name == "merge_mult_of":
            body = [ast.unparse(st) for st in node.body]
            args = [a.arg for a in node.args.args]
            want = ["if not isinstance(m1, int) or not isinstance(m2, int):\n    raise TypeError('multipleOf merging is only supported with integers')",
                    "return m1 * m2 // gcd(m1, m2)"]
            if args == ["m1", "m2"] and body == want:
                resolved["merge_mult_of"] = "lcm"
        if isinstance(node, ast.FunctionDef) and node.name == "merge_pattern":
            if len(node.body) == 1 and isinstance(node.body[0], ast.Raise):
                resolved["merge_pattern"] = "fail"
    imports_gcd = any(isinstance(n, ast.ImportFrom) and n.module == "math" and any(a.name == "gcd" and a.asname is None for a in n.names)
                      for n in m.body)
    if not imports_gcd:
        resolved.pop("merge_mult_of", None)
    if any(isinstance(n, ast.Import) and any(a.name == "operator" and a.asname == "op" for a in n.names) for n in m.body):
        resolved["op.or_"] = "or"
    rows = []
    for node in m.body:
        if isinstance(node, ast.ClassDef) and node.name == "Constraints":
            for st in node.body:
                if isinstance(st, ast.AnnAssign) and isinstance(st.target, ast.Name) and isinstance(st.value, ast.Call) \
                        and ast.unparse(st.value.func) == "constraint":
                    if len(st.value.args) != 3 or st.value.keywords:
                        raise Cannot(f"constraints.py: constraint({st.target.id}) has an unexpected call shape")
                    alias = ast.literal_eval(st.value.args[0])
                    merge = ast.unparse(st.value.args[2])
                    if merge not in resolved:
                        raise Cannot(f"constraints.py: merge operation {merge} of {st.target.id} is not one the translator can read")
                    rows.append((st.target.id, alias, resolved[merge]))
    if not rows:
        raise Cannot("constraints.py: class Constraints not found")
    # merge_constraints must apply metadata.merge only when both sides are given
    fn = [n for n in m.body if isinstance(n, ast.FunctionDef) and n.name == "merge_constraints"]
    if len(fn) != 1:
        raise Cannot("constraints.py: merge_constraints not found")
    txt = ast.unparse(fn[0])
    for frag in ("if attr1 is None:\n            constraints[name] = attr2", "elif attr2 is None:\n            constraints[name] = attr1",
                 "else:\n            constraints[name] = metadata.merge(attr1, attr2)"):
        if frag not in txt:
            raise Cannot("constraints.py: merge_constraints changed shape")
    return rows


# ------------------------------------------------------------------ emit

def generate():
    errs = []
    L = ["(* GENERATED by harness/tables.py from the repository working tree -- do not edit *)",
         "From Coq Require Import List String ZArith Bool.", "Import ListNotations.", "Open Scope string_scope.", ""]

    def guard(fn, fallback_text, name):
        try:
            return fn()
        except Cannot as e:
            errs.append(str(e))
        except Exception as e:  # fail closed on anything unexpected
            errs.append(f"{name}: {type(e).__name__}: {e}")
        L.append(fallback_text)
        return None

    r = guard(coercion_tables, "Definition str_to_bool : list (string * bool) := [].\nDefinition str_none_values : list string := [].", "coercion")
    if r:
        table, none_values = r
        L.append("Definition str_to_bool : list (string * bool) := "
                 + core.coq_list([f"({cstr(k)}, {core.coq_bool(v)})" for k, v in table]) + ".")
        L.append("Definition str_none_values : list string := " + core.coq_list([cstr(s) for s in none_values]) + ".")
    r = guard(error_templates, "Definition error_templates : list (string * string) := [].", "errors")
    if r:
        L.append("Definition error_templates : list (string * string) := "
                 + core.coq_list([f"({cstr(k)}, {cstr(v)})" for k, v in r.items()]) + ".")
    r = guard(json_type_names, "Definition json_type_names : list (string * string) := [].\nDefinition bad_type_src : string := \"\".", "json types")
    if r:
        mapping, bt = r
        L.append("Definition json_type_names : list (string * string) := "
                 + core.coq_list([f"({cstr(k)}, {cstr(v)})" for k, v in mapping]) + ".")
    r = guard(versions, "Definition openapi30_unsupported : list string := [].\nDefinition versions : list (string * (option string * string * string * bool * bool)) := [].", "versions")
    if r:
        unsupported, vers = r
        L.append("Definition openapi30_unsupported : list string := " + core.coq_list([cstr(s) for s in unsupported]) + ".")
        rows = []
        for k, v in vers.items():
            schema, prefix, conv, all_refs, defs = v
            rows.append(f"({cstr(k)}, ({core.coq_opt(cstr(schema)) if schema else 'None'}, {cstr(prefix)}, "
                        f"{cstr(conv[3:] if conv else '')}, {core.coq_bool(all_refs)}, {core.coq_bool(defs)}))")
        L.append("Definition versions : list (string * (option string * string * string * bool * bool)) := " + core.coq_list(rows) + ".")
    r = guard(cache_wiring, "Definition cache_wiring : list (string * string * bool) := [(\"unreadable\", \"set\", false)].", "cache wiring")
    if r:
        L.append("Definition cache_wiring : list (string * string * bool) := "
                 + core.coq_list([f"({cstr(a)}, {cstr(b)}, {core.coq_bool(c)})" for a, b, c in r]) + ".")
    r = guard(cached_functions, "Definition cached_functions : list (string * bool) := [(\"unreadable\", false)].", "cached functions")
    if r:
        L.append("Definition cached_functions : list (string * bool) := "
                 + core.coq_list([f"({cstr(a)}, {core.coq_bool(b)})" for a, b in r]) + ".")
    r = guard(set_size_registration, "Definition set_size_registers : bool := false.", "cache.set_size")
    if r is not None:
        L.append("Definition set_size_registers : bool := " + core.coq_bool(bool(r)) + ".")
    r = guard(constraint_merges, "Definition constraint_merges : list (string * string * string) := [(\"unreadable\", \"\", \"\")].", "constraint merges")
    if r:
        L.append("Definition constraint_merges : list (string * string * string) := "
                 + core.coq_list([f"({cstr(a)}, {cstr(b)}, {cstr(c)})" for a, b, c in r]) + ".")
    return "\n".join(L) + "\n", errs


def regenerate():
    txt, errs = generate()
    path = os.path.join(core.COQ, "Gen", "Tables.v")
    if not os.path.exists(path) or open(path).read() != txt:
        open(path, "w").write(txt)
    return errs


if __name__ == "__main__":
    t, e = generate()
    print(t)
    print(e)
