"""JSON Schema documents produced by the implementation -> Gallina terms of Schema/Json.v (fail-closed)."""
from harness.core import coq_str, coq_list, coq_nat, coq_bool
from harness.descr import prim_coq, num_coq

ANNOTATIONS = {"default", "title", "description", "examples", "example", "format", "deprecated", "readOnly", "writeOnly",
               "$schema", "contentMediaType", "contentEncoding", "discriminator"}
JT = {"null": "JNull", "boolean": "JBoolean", "string": "JString", "integer": "JInteger", "number": "JNumber",
      "array": "JArray", "object": "JObject"}
NUM = {"minimum": "KMin", "maximum": "KMax", "exclusiveMinimum": "KExcMin", "exclusiveMaximum": "KExcMax", "multipleOf": "KMultOf"}
NAT = {"minLength": "KMinLen", "maxLength": "KMaxLen", "minItems": "KMinItems", "maxItems": "KMaxItems",
       "minProperties": "KMinProps", "maxProperties": "KMaxProps"}


class Unsupported(ValueError):
    pass


def literal_pattern(p):
    if not isinstance(p, str) or not p.startswith("^") or any(ch in p[1:] for ch in ".*+?()[]{}|\\$^"):
        raise Unsupported(f"pattern {p!r} is not a start-anchored literal")
    return p[1:]


def is_prim(v):
    return v is None or isinstance(v, (bool, int, str))


def has_subschema(s):
    return isinstance(s, dict) and any(k in s for k in ("items", "prefixItems", "properties", "additionalProperties",
                                                        "patternProperties", "propertyNames", "anyOf", "allOf", "oneOf", "$ref",
                                                        "additionalItems"))


def split_defs(doc):
    """(schema without definitions, definitions dict)"""
    doc = dict(doc)
    defs = {}
    for k in ("$defs", "definitions"):
        defs.update(doc.pop(k, {}))
    return doc, defs


def js_coq(s, leaf_names, prefixes=("#/$defs/", "#/definitions/", "#/components/schemas/"), keep_annot=False, marker=None):
    """keep_annot: annotation keywords are kept as KwAnnot name (their presence matters to isolate_ref);
    marker: name of the definitions keyword present next to the root schema"""
    if isinstance(s, bool):
        return f"(JBoolS {coq_bool(s)})"
    if not isinstance(s, dict):
        raise Unsupported(f"schema {s!r}")
    rec = lambda x: js_coq(x, leaf_names, prefixes, keep_annot)
    kws = []
    if marker:
        kws.append(f"KwAnnot {coq_str(marker)}")
    for k, v in s.items():
        if k in ANNOTATIONS:
            if keep_annot:
                kws.append(f"KwAnnot {coq_str(k)}")
            continue
        if k == "type":
            ts = [v] if isinstance(v, str) else list(v)
            kws.append("KwType " + coq_list(JT[str(t)] for t in ts))
        elif k == "const":
            if not is_prim(v):
                raise Unsupported(f"const {v!r}")
            kws.append("KwConst " + prim_coq(v))
        elif k == "enum":
            if not all(is_prim(x) for x in v):
                raise Unsupported(f"enum {v!r}")
            kws.append("KwEnum " + coq_list(map(prim_coq, v)))
        elif k in NUM:
            if isinstance(v, bool) or not isinstance(v, (int, float)) or (isinstance(v, float) and v * 4 != int(v * 4)):
                raise Unsupported(f"{k} {v!r}")
            kws.append(f"KwCon ({NUM[k]} {num_coq(v)})")
        elif k in NAT:
            kws.append(f"KwCon ({NAT[k]} {coq_nat(v)})")
        elif k == "pattern":
            kws.append(f"KwCon (KPattern {coq_str(literal_pattern(v))})")
        elif k == "uniqueItems":
            if v:
                kws.append("KwCon KUnique")
        elif k == "items":
            kws.append("KwItemsArr " + coq_list(map(rec, v)) if isinstance(v, list) else "KwItems " + rec(v))
        elif k == "additionalItems":
            kws.append("KwAddItems " + rec(v))
        elif k == "prefixItems":
            kws.append("KwPrefixItems " + coq_list(map(rec, v)))
        elif k == "properties":
            kws.append("KwProperties " + coq_list(f"({coq_str(n)}, {rec(x)})" for n, x in v.items()))
        elif k == "patternProperties":
            kws.append("KwPatternProps " + coq_list(f"({coq_str(literal_pattern(n))}, {rec(x)})" for n, x in v.items()))
        elif k == "required":
            kws.append("KwRequired " + coq_list(map(coq_str, v)))
        elif k == "additionalProperties":
            kws.append("KwAddProps " + rec(v))
        elif k == "propertyNames":
            kws.append("KwPropertyNames " + rec(v))
        elif k in ("dependentRequired", "dependencies"):
            if not all(isinstance(x, list) for x in v.values()):
                raise Unsupported(f"{k} {v!r}")
            kws.append(("KwDepReq " if k == "dependentRequired" else "KwDependencies ")
                       + coq_list(f"({coq_str(n)}, {coq_list(map(coq_str, x))})" for n, x in v.items()))
        elif k in ("anyOf", "allOf", "oneOf"):
            kws.append({"anyOf": "KwAnyOf ", "allOf": "KwAllOf ", "oneOf": "KwOneOf "}[k] + coq_list(map(rec, v)))
        elif k == "$ref":
            name = None
            for p in prefixes:
                if v.startswith(p):
                    name = v[len(p):]
            if name is None:
                raise Unsupported(f"$ref {v!r}")
            kws.append(f"KwRef {coq_bool(name in leaf_names)} {coq_str(name)}")
        elif k == "nullable":
            if v:
                kws.append("KwNullable")
        else:
            raise Unsupported(f"keyword {k!r}")
    return "(JS " + coq_list(kws) + ")"


def doc_coq(doc, keep_annot=False, external_defs=None, no_marker=False):
    """(js term, defs term) of a schema document; external_defs: definitions generated apart (OpenAPI components)"""
    s, defs = split_defs(doc)
    marker = None
    if keep_annot and defs and not no_marker:
        marker = "$defs" if "$defs" in doc else "definitions"
    if external_defs:
        defs = dict(defs, **external_defs)
    leaf = {n for n, d in defs.items() if not has_subschema(d)}
    return (js_coq(s, leaf, keep_annot=keep_annot, marker=marker),
            coq_list(f"({coq_str(n)}, {js_coq(d, leaf, keep_annot=keep_annot)})" for n, d in defs.items()))


def strip_annotations(s):
    if isinstance(s, dict):
        return {k: (strip_annotations(v) if k not in ("const", "enum") else v) for k, v in s.items() if k not in ANNOTATIONS}
    if isinstance(s, list):
        return [strip_annotations(x) for x in s]
    return s
