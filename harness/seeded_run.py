"""Apply each seeded mutant to /repo, run the check of its property (quick tier), record detection, undo."""
import json, os, subprocess, sys, time

def sh(cmd, cwd=None, timeout=3000):
    p = subprocess.run(cmd, shell=True, cwd=cwd, capture_output=True, text=True, timeout=timeout)
    return p.returncode, p.stdout + p.stderr

def main(args):
    tier = "quick"
    if "--thorough" in args:
        tier = "thorough"; args.remove("--thorough")
    use_wt = "--worktree" in args          # check each change in a scratch worktree (VERIF_REPO) instead of /repo itself
    if use_wt:
        args.remove("--worktree")
    wanted = args
    manifest = json.load(open("/verif/MANIFEST.json"))
    claimed = {c["property_id"] for c in manifest["checks"]}
    assert sh("git -C /repo status --porcelain")[1].strip() == "", "repo not clean"
    rows = []
    for d in sorted(os.listdir("/verif/seeded")):
        pid = d.split("_")[0]
        if wanted and not any(w in (pid, d) for w in wanted):
            continue
        if not os.path.exists(f"/verif/harness/props/{pid.lower()}.py"):
            continue
        patch = f"/verif/seeded/{d}/patch.diff"
        target, env = "/repo", ""
        if use_wt:
            target = f"/tmp/seeded_wt_{os.getpid()}"
            sh(f"rm -rf {target}; git -C /repo worktree prune; git -C /repo worktree add -q --detach {target} HEAD")
            env = f"VERIF_REPO={target} "
        rc, out = sh(f"git -C {target} apply {patch}")
        if rc != 0:
            rows.append((d, "patch does not apply")); print(d, "PATCH FAILS", out[-200:])
            if use_wt:
                sh(f"git -C /repo worktree remove --force {target}")
            continue
        try:
            t0 = time.time()
            rc, out = sh(f"{env}./vcheck {pid} --tier {tier}", cwd="/verif")
        finally:
            if use_wt:
                sh(f"git -C /repo worktree remove --force {target}; git -C /repo worktree prune")
            else:
                sh("git -C /repo checkout -- .")
        vio = [l for l in out.split("\n") if l.startswith("VIOLATION")]
        hint = [l for l in out.split("\n") if l.startswith("# ")][:1]
        detected = rc != 0 and bool(vio)
        kind = "no-failing-input-found" if vio and all("no-failing-input-found" in v for v in vio) else "concrete input"
        print(d, "DETECTED" if detected else "MISSED", f"({kind})" if detected else "", f"{time.time()-t0:.0f}s", (hint[0][:160] if hint else ""))
        meta = json.load(open(f"/verif/seeded/{d}/meta.json"))
        meta["detected_by"] = dict(check=f"./vcheck {pid} --tier {tier}", detected=detected, kind=kind if detected else None,
                                   first_message=hint[0][:300] if hint else None)
        json.dump(meta, open(f"/verif/seeded/{d}/meta.json", "w"), indent=1)
    assert sh("git -C /repo status --porcelain")[1].strip() == "", "repo left dirty"

if __name__ == "__main__":
    main(sys.argv[1:])
