"""debug helper: print model/impl mismatches"""
import sys
from harness import core
from harness.deser_run import Producer, C_MODEL, C_SPEC
from harness.descr import ty_src

def main(nu=40, checker="model", seed=None, coerce=None):
    import os
    if seed: os.environ["VERIF_SEED"]=str(seed)
    R = core.Run("DBG", "quick")
    P = Producer(R, int(nu), 6, 5, depth=3, roots=True, coerce=coerce)
    P.run()
    bad = P.check("DBG", C_MODEL if checker == "model" else C_SPEC)
    print("cases", len(P.cases), "bad", len(bad), R.hist)
    seen = set()
    shown = 0
    for c in bad:
        key = (c.t[0], c.kind, type(c.data).__name__)
        if key in seen: continue
        seen.add(key)
        print("TYPE", ty_src(c.t), "| DATA", repr(c.data), "| OPTS", {k:v for k,v in c.opts.items() if v not in (False,'id')}, "| ROOT", c.root)
        print("  IMPL ", c.kind, c.payload)
        expr = "model" 
        print("  MODEL", P.diagnose("DBG", c))
        if c.t[0]=="obj" or "C" in ty_src(c.t):
            print(P.universes[c.uidx][1][:1500])
        shown += 1
        if shown > 14: break

if __name__ == "__main__":
    a = sys.argv[1:]
    main(*(a[:2]), **({"seed": a[2]} if len(a) > 2 else {}), coerce=(None if len(a) < 4 else a[3] == "1"))
