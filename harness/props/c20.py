"""C20 — concurrent first use from several threads is safe."""
import json
import os
import subprocess
import sys
from concurrent.futures import ThreadPoolExecutor

from harness import core, pyrun
from harness.core import coq_list, coq_nat, coq_bool

HEADER = """From Coq Require Import List Bool Arith.
From AV Require Import Small.RecCache.
Import ListNotations.
Definition sub_map (a b : list (nat * bool)) : bool :=
  forallb (fun kb => match assoc (fst kb) b with Some x => Bool.eqb x (snd kb) | None => false end) a.
"""
CASE_TYPE = "graph * list nat * list (nat * bool)"
CHECKER = ("(fun c : " + CASE_TYPE + " => let '(g, roots, real) := c in let m := after g roots in "
           "sub_map m real && sub_map real m && check g roots)")

WORKER = os.path.join(os.path.dirname(os.path.dirname(os.path.abspath(__file__))), "c20_worker.py")


def graph_src(g):
    L = ["from dataclasses import dataclass", ""]
    for i, succ in enumerate(g):
        L.append("@dataclass")
        L.append(f"class N{i}:")
        if not succ:
            L.append("    x: int")
        for j, s in enumerate(succ):
            L.append(f"    f{j}: 'N{s}'")
        L.append("")
    return "\n".join(L)


def gen_graph(rng):
    n = rng.randint(1, 6)
    dens = rng.choice([0.15, 0.3, 0.5])
    return [[s for s in rng.sample(range(n), n) if rng.random() < dens] for _ in range(n)]


def py_invariants(g, cache, roots):
    """exact / complete computed directly on the implementation's cache"""
    n = len(g)

    def reach(a, ok):
        seen, todo = set(), [s for s in g[a] if ok(s)]
        while todo:
            x = todo.pop()
            if x in seen:
                continue
            seen.add(x)
            todo.extend(s for s in g[x] if ok(s))
        return seen
    for k, b in cache.items():
        if b != (k in reach(k, lambda _: True)):
            return f"node {k} is cached as {'recursive' if b else 'not recursive'} but lies on {'no' if b else 'a'} cycle"
    for r in roots:
        for k in reach(r, lambda _: True) | {r}:
            if k not in cache:
                return f"node {k}, reachable from the analysed root {r}, has no cache entry"
    return None


def sequential_part(R, n_graphs):
    pyrun.ensure_repo_on_path()
    import apischema.cache
    from apischema import settings, deserialization_method, serialization_method
    from apischema.json_schema import deserialization_schema
    from apischema.recursion import is_recursive, recursion_cache, DeserializationRecursiveChecker, SerializationRecursiveChecker
    rng = R.rng
    items, meta = [], []
    for gi in range(n_graphs):
        g = gen_graph(rng) if gi else [[1, 2], [0, 1], [1]]
        roots = [rng.randrange(len(g)) for _ in range(rng.randint(1, 3))] if gi else [0]
        src = graph_src(g)
        mod = pyrun.exec_module(src)
        apischema.cache.reset()
        ser = rng.random() < 0.3
        checker = SerializationRecursiveChecker if ser else DeserializationRecursiveChecker
        dconv = (settings.serialization if ser else settings.deserialization).default_conversion
        classes = [mod.__dict__[f"N{i}"] for i in range(len(g))]
        answers = []
        try:
            for r in roots:
                answers.append(is_recursive(classes[r], None, dconv, checker))
        except Exception as e:
            R.violation(f"is_recursive raised {type(e).__name__}: {e}", dict(source=src, roots=roots))
            pyrun.drop_module(mod)
            continue
        for r in roots:        # what the analysis is for: building the methods / schemas of the analysed types terminates
            for what, f in (("deserialization_method", lambda: deserialization_method(classes[r])),
                            ("serialization_method", lambda: serialization_method(classes[r])),
                            ("deserialization_schema", lambda: deserialization_schema(classes[r]))):
                try:
                    f()
                except RecursionError:
                    R.violation(f"{what}(N{r}) raises RecursionError", dict(source=src, graph=g, roots=roots))
                except Exception as e:
                    R.violation(f"{what}(N{r}) raises {type(e).__name__}: {e}", dict(source=src, graph=g, roots=roots))
        import inspect
        # keyed by the default conversion as well since fix 709dee9
        extra = (dconv,) if len(inspect.signature(recursion_cache).parameters) > 1 else ()
        real = {classes.index(tp): b for (tp, conv), b in recursion_cache(checker, *extra).items() if conv is None and tp in classes}
        R.note_case((len(g), sum(map(len, g)), tuple(roots), tuple(sorted(real.items()))),
                    sample=dict(graph=g, roots=roots, cache=sorted(real.items())))
        R.count(f"nodes:{len(g)}")
        R.count("some_recursive" if any(real.values()) else "none_recursive")
        bad = py_invariants(g, real, roots)
        if bad:
            R.violation("sequential recursion analysis: " + bad, dict(source=src, graph=g, roots=roots, cache=sorted(real.items())))
        for r, a in zip(roots, answers):
            if real.get(r) is not a:
                R.violation("is_recursive returned a value different from the cache entry", dict(source=src, roots=roots))
        items.append(f"({coq_list(coq_list(map(coq_nat, s)) for s in g)}, {coq_list(map(coq_nat, roots))}, "
                     f"{coq_list('(%s, %s)' % (coq_nat(k), coq_bool(b)) for k, b in sorted(real.items()))})")
        meta.append(dict(source=src, graph=g, roots=roots, cache=sorted(real.items())))
        pyrun.drop_module(mod)
    apischema.cache.reset()
    bad, errs = core.run_coq_shards("C20", HEADER, items, CHECKER, item_type=CASE_TYPE)
    for k, e in errs:
        R.broken.append(f"coq evaluation failed (shard {k}): {e[-300:]}")
    for i in bad[:10]:
        R.violation("the recursion cache left by the implementation differs from the model's (Small/RecCache.v visit), or "
                    "violates exact/complete", meta[i])


def run_worker(mode, seed, rounds, nthreads, timeout):
    env = dict(os.environ, PYTHONPATH=core.REPO, PYTHONHASHSEED="0")
    try:
        p = subprocess.run([sys.executable, WORKER, mode, str(seed), str(rounds), str(nthreads)], env=env, capture_output=True,
                           text=True, timeout=timeout)
    except subprocess.TimeoutExpired:
        return dict(mode=mode, seed=seed, rounds=rounds, nthreads=nthreads, hang=True)
    try:
        rep = json.loads(p.stdout.strip().splitlines()[-1])
    except Exception:
        return dict(mode=mode, seed=seed, rounds=rounds, nthreads=nthreads, crash=(p.stderr or p.stdout)[-1500:])
    rep.update(mode=mode, seed=seed, nthreads=nthreads, asked_rounds=rounds)
    return rep


def concurrent_part(R, plan):
    with ThreadPoolExecutor(max_workers=12) as ex:
        reps = list(ex.map(lambda a: run_worker(*a), plan))
    for rep in reps:
        cmd = f"PYTHONPATH={core.REPO} {sys.executable} {WORKER} {rep['mode']} {rep['seed']} {rep.get('asked_rounds', rep.get('rounds'))} {rep['nthreads']}"
        if rep.get("hang"):
            R.violation(f"{rep['mode']} run (seed {rep['seed']}) did not finish: threads blocked", dict(command=cmd))
            continue
        if "crash" in rep:
            R.broken.append(f"c20 worker crashed ({rep['mode']} seed {rep['seed']}): {rep['crash'][-400:]}")
            continue
        R.count(f"{rep['mode']}:rounds", rep["rounds"])
        R.count(f"{rep['mode']}:operations", rep["ops"])
        R.count(f"{rep['mode']}:operations_raising_as_sequentially", rep["exceptions"])
        R.evaluations += rep["ops"]
        for m in rep["mismatches"][:3]:
            R.violation(f"{rep['mode']} schedule (seed {rep['seed']}): {m['kind']} ({m.get('op', '')})", dict(command=cmd, mismatch=m))


def run(tier):
    R = core.Run("C20", tier)
    R.trusted = core.TRUSTED_COMMON + [
        "Small/RecCache.v models RecursiveChecker.visit over the abstract type graph (nodes = (type, conversion) keys); the "
        "tie is the comparison of the real recursion_cache with the model's on generated class graphs",
        "CPython's GIL scheduling and the injected yield points bound what the schedule exploration can exhibit: interleavings "
        "inside a single bytecode or C call (lru_cache internals, dict operations) are atomic and not explored",
        "the theorems about serialized analyses are bounded-exhaustive (3 nodes, 3 analyses); the fill-if-absent theorem is unbounded"]
    R.coq_build(["Small/RecCache.v", "Small/RecCacheProofs.v"])
    thorough = tier == "thorough"
    sequential_part(R, 1500 if thorough else 300)
    plan = [("preempt", 100 + s, 250 if thorough else 50, 4, 1500) for s in range(12 if thorough else 6)]
    plan += [("yield", 200 + s, 40 if thorough else 8, 3, 1500) for s in range(16 if thorough else 8)]
    plan += [("stagger", s, 12, 2, 1500) for s in range(12)]
    plan += [("yield", 300 + s, 20 if thorough else 6, 2, 1500) for s in range(8 if thorough else 2)]
    concurrent_part(R, plan)
    return R.finish(
        rule="(1) sequential tie: random class graphs of 1-6 dataclasses (fields in random order, self loops, duplicate "
             "edges), 1-3 analysed roots, (de)serialization checkers: the implementation's recursion cache = the model's and "
             "is exact and complete; (2) schedules: fresh type families (plain, self-recursive, mutually recursive, "
             "3-cycle, generic) first used by 2-4 threads through deserialize / serialize / schema generation, under 1 us "
             "preemption with a barrier start, under systematic single preemption (thread 1 paused at each yield point of its first use while thread 2 runs an operation sharing its types) and under pseudo-random bursty schedules of yields injected at every recursion-cache "
             "access and lazy method initialisation; every concurrent result, and every result obtained afterwards on the same "
             "caches, is compared with a sequential cold-cache run on equal fresh types")


def replay(data):
    r = data["replay"]
    if "command" in r:
        print("re-run:", r["command"])
        print(json.dumps(r.get("mismatch"), indent=1)[:3000])
    else:
        print(r.get("source"))
        print({k: v for k, v in r.items() if k != "source"})
