"""C16 — field order: model (coq/Small/Ordering.v) vs serialize / both schemas / GraphQL."""
import itertools
import json

from harness import core, pyrun
from harness.core import coq_str, coq_list, coq_Z, coq_opt

HEADER = """From Coq Require Import List String ZArith Bool.
From AV Require Import Small.Ordering Core.Util.
Import ListNotations.
Open Scope string_scope.
"""
CHECKER = "(fun c : overriding * list elt * option (list string) => let '(ov, es, expected) := c in " \
          "opt_strs_eqb (option_map names (sort_by_order ov es)) expected)"

NAMES = ["a", "b", "c", "d", "e"]
MNAMES = ["m0", "m1"]
VALUES = [-1, 0, 1, 999]


def ord_src(o):
    if o is None:
        return None
    k, v = o
    return f"order({v})" if k == "order" else f"order({k}={v!r})"


def ord_coq(o):
    if o is None:
        return "None"
    k, v = o
    if k == "order":
        return f"(Some (OOrder {coq_Z(v)}))"
    return f"(Some ({'OAfter' if k == 'after' else 'OBefore'} {coq_str(v)}))"


def ord_coq_plain(o):
    k, v = o
    if k == "order":
        return f"(OOrder {coq_Z(v)})"
    return f"({'OAfter' if k == 'after' else 'OBefore'} {coq_str(v)})"


def cls_src(name, base, fields, methods, cls_order):
    L = []
    if cls_order is not None:
        kind, val = cls_order
        if kind == "seq":
            L.append(f"@order({val!r})")
        else:
            L.append("@order({" + ", ".join(f"{k!r}: {ord_src(o)}" for k, o in val) + "})")
    L.append("@dataclass")
    L.append(f"class {name}({base}):" if base else f"class {name}:")
    body = []
    for f in fields:
        md = ord_src(f["ord"])
        if f["kind"] == "initvar":
            body.append(f"    {f['name']}: InitVar[int] = field(default=0" + (f", metadata={md}" if md else "") + ")")
        elif f["kind"] == "noinit":
            body.append(f"    {f['name']}: int = field(default=0, init=False" + (f", metadata={md}" if md else "") + ")")
        elif md and sum(map(ord, f["name"] + md)) % 3 == 0:
            # the ordering carried by the annotation of the field instead of its metadata
            body.append(f"    {f['name']}: Annotated[int, {md}] = 0")
        else:
            body.append(f"    {f['name']}: int = field(default=0" + (f", metadata={md}" if md else "") + ")")
    for m in methods:
        md = ord_src(m["ord"])
        if m.get("style") == "serialized":
            # an alias different from the function name: ordering targets and class-level overrides go by name
            al = repr(m["name"] + "_al") if m.get("aliased") else ""
            args = ", ".join(x for x in (al, f"order={md}" if md else "") if x)
            body.append(f"    @serialized({args})")
        else:
            body.append(f"    @resolver(serialized=True" + (f", order={md}" if md else "") + ")")
        body.append(f"    def {m['name']}(self) -> int:")
        body.append("        return 0")
    if not body:
        body.append("    pass")
    return "\n".join(L + body)


def case_src(case):
    L = ["from dataclasses import dataclass, field, InitVar", "from typing import Annotated", "from apischema import order, serialized", "from apischema.graphql import resolver", ""]
    if case.get("base"):
        b = case["base"]
        L.append(cls_src("Base", None, b["fields"], b["methods"], b["cls_order"]))
        L.append("")
    L.append(cls_src("A", "Base" if case.get("base") else None, case["fields"], case["methods"], case["cls_order"]))
    L.append("")
    return "\n".join(L)


def all_elts(case):
    fs, ms = [], []
    if case.get("base"):
        fs += case["base"]["fields"]
        ms += case["base"]["methods"]
    fs += case["fields"]
    ms += case["methods"]
    return fs, ms


def overriding(case):
    ov = []
    for c in ([case["base"]] if case.get("base") else []) + [case]:
        co = c["cls_order"]
        if co is None:
            continue
        kind, val = co
        if kind == "seq":
            ov += [(f, ("after", p)) for f, p in zip(val[1:], val)]
        else:
            ov += list(val)
    return ov


def view_elts(case, view):
    fs, ms = all_elts(case)
    if view == "dschema":
        return [f for f in fs if f["kind"] != "noinit"]
    if view == "graphql":
        ms = [m for m in ms if m.get("style") != "serialized"]
    return [f for f in fs if f["kind"] != "initvar"] + ms


def observe(case, views):
    """Returns {view: list of keys | 'ValueError' | 'EXC:...'}"""
    pyrun.ensure_repo_on_path()
    from apischema import serialize
    from apischema.json_schema import deserialization_schema, serialization_schema
    mod = pyrun.exec_module(case_src(case))
    A = mod.A
    out = {}

    def guard(fn):
        try:
            return fn()
        except Exception as e:
            # graphql-core wraps the ValueError raised while resolving the lazily computed fields
            if "Cyclic after/before ordering" in str(e):
                return "ValueError"
            return f"EXC:{type(e).__name__}:{e}"
    def names(keys):
        return [k[:-3] if isinstance(k, str) and k.endswith("_al") else k for k in keys] if isinstance(keys, list) else keys
    for v in views:
        if v == "ser":
            out[v] = guard(lambda: names(list(serialize(A, A()))))
        elif v == "dschema":
            out[v] = guard(lambda: list(deserialization_schema(A).get("properties", {})))
        elif v == "sschema":
            out[v] = guard(lambda: names(list(serialization_schema(A).get("properties", {}))))
        elif v == "graphql":
            def g():
                from apischema.graphql import graphql_schema
                ns = {"A": A}
                exec("def getA() -> A:\n    return A()\n", ns)
                schema = graphql_schema(query=[ns["getA"]], aliaser=lambda s: s)
                return names(list(schema.type_map["A"].fields))
            out[v] = guard(g)
    pyrun.drop_module(mod)
    return out


def coq_case(case, view, observed):
    es = view_elts(case, view)
    ov = overriding(case)
    exp = None if observed == "ValueError" else observed
    ov_s = coq_list([f"({coq_str(k)}, {ord_coq_plain(o)})" for k, o in ov])
    es_s = coq_list([f"{{| ename := {coq_str(e['name'])}; eord := {ord_coq(e['ord'])} |}}" for e in es])
    exp_s = "None" if exp is None else "(Some " + coq_list([coq_str(s) for s in exp]) + ")"
    return f"({ov_s}, {es_s}, {exp_s})"


# ---------------------------------------------------------------- generators

def ord_choices(others):
    ch = [None] + [("order", v) for v in VALUES]
    for x in others:
        ch.append(("after", x))
        ch.append(("before", x))
    return ch


def exhaustive_small(max_n):
    """every class with n <= max_n plain fields and every ordering spec per field (targets: any declared name, incl. itself)"""
    for n in range(1, max_n + 1):
        names = NAMES[:n]
        for combo in itertools.product(*[ord_choices(names) for _ in names]):
            yield dict(fields=[dict(name=nm, kind="normal", ord=o) for nm, o in zip(names, combo)],
                       methods=[], cls_order=None, base=None)


def random_case(rng):
    n = rng.randint(1, 5)
    nm = rng.randint(0, 2)
    names = NAMES[:n]
    mnames = MNAMES[:nm]
    allnames = names + mnames
    split = rng.randint(0, n) if rng.random() < 0.35 else 0
    msplit = rng.randint(0, nm) if split else 0

    def rord(p_none=0.4):
        if rng.random() < p_none:
            return None
        r = rng.random()
        if r < 0.4:
            return ("order", rng.choice(VALUES))
        pool = allnames + (["zz"] if rng.random() < 0.1 else [])
        return (rng.choice(["after", "before"]), rng.choice(pool))

    def rfields(ns):
        out = []
        for x in ns:
            k = rng.random()
            kind = "initvar" if k < 0.12 else "noinit" if k < 0.24 else "normal"
            out.append(dict(name=x, kind=kind, ord=rord()))
        return out

    def rcls_order(own):
        r = rng.random()
        if r < 0.6 or not own:
            return None
        if r < 0.8:
            k = rng.randint(1, min(3, len(allnames)))
            return ("seq", rng.sample(allnames, k))
        k = rng.randint(1, min(3, len(allnames)))
        keys = rng.sample(allnames, k)
        return ("map", [(x, rord(0.0)) for x in keys])

    base = None
    if split:
        base = dict(fields=rfields(names[:split]), methods=[dict(name=m, ord=rord(), style=rng.choice(["serialized", "resolver"]), aliased=rng.random() < 0.4) for m in mnames[:msplit]],
                    cls_order=rcls_order(True))
    return dict(fields=rfields(names[split:]), methods=[dict(name=m, ord=rord(), style=rng.choice(["serialized", "resolver"]), aliased=rng.random() < 0.4) for m in mnames[msplit:]],
                cls_order=rcls_order(True), base=base)


def fingerprint(case, view, obs):
    es = view_elts(case, view)
    kinds = tuple(sorted((e["ord"][0] if e["ord"] else "none") for e in es))
    return (view, len(es), kinds, bool(case.get("base")), case["cls_order"][0] if case["cls_order"] else None,
            "err" if isinstance(obs, str) else "ok")


def run(tier):
    R = core.Run("C16", tier)
    R.trusted = core.TRUSTED_COMMON + [
        "model of sort_by_order/get_order_overriding is hand-written (coq/Small/Ordering.v); which elements each view "
        "passes to sort_by_order (write-only fields absent from serialization, read-only from deserialization) is harness logic",
    ]
    R.coq_build(["Small/Ordering.v", "Small/OrderingProofs.v", "Core/Util.v"])
    rng = R.rng
    cases = []
    corpus = core.load_corpus("C16")
    cases += corpus
    if tier == "quick":
        cases += list(exhaustive_small(2))
        ex3 = list(exhaustive_small(3))[len(list(exhaustive_small(2))):]
        cases += rng.sample(ex3, 300)
        cases += [random_case(rng) for _ in range(500)]
    else:
        cases += list(exhaustive_small(3))
        ex4 = [c for c in exhaustive_small(4) if len(c["fields"]) == 4]
        cases += rng.sample(ex4, 4000)
        cases += [random_case(rng) for _ in range(6000)]
    views_all = ["ser", "dschema", "sschema", "graphql"]
    items, meta = [], []
    for ci, case in enumerate(cases):
        views = views_all if (tier != "quick" or ci % 3 == 0 or ci < len(corpus)) else ["ser", "dschema", "sschema"]
        obs = observe(case, views)
        for v in views:
            o = obs[v]
            es = view_elts(case, v)
            R.note_case(fingerprint(case, v, o), sample=dict(view=v, source=case_src(case), observed=o))
            R.count("view:" + v)
            if isinstance(o, str) and o.startswith("EXC"):
                R.count("impl_exception")
                R.violation(f"{v}: unexpected exception {o}", dict(case=case, view=v, observed=o, source=case_src(case)))
                continue
            if o == "ValueError":
                R.count("cyclic_refused")
            else:
                # P1 (direct, model-free): no element lost or duplicated
                if sorted(o) != sorted(e["name"] for e in es):
                    R.violation(f"{v}: output keys {o} are not a permutation of the declared elements",
                                dict(case=case, view=v, observed=o, source=case_src(case)))
                    continue
            items.append(coq_case(case, v, o))
            meta.append((case, v, o))
    bad, errs = core.run_coq_shards("C16", HEADER, items, CHECKER, item_type="overriding * list elt * option (list string)")
    for k, e in errs:
        R.broken.append(f"coq evaluation of cases failed (shard {k}): {e[-300:]}")
    for i in bad[:20]:
        case, v, o = meta[i]
        # the model is the documented order (theorems C16_*): a mismatch is a wrong order on a concrete input
        R.violation(f"{v}: key order {o} differs from the documented order computed by the model",
                    dict(case=case, view=v, observed=o, source=case_src(case), coq_case=items[i]))
    R.assumptions = ["GraphQL view observed through graphql_schema(...).type_map['A'].fields with identity aliaser",
                     "fields are ints with defaults; ordering does not depend on field types"]
    return R.finish(
        rule="classes generated as Python source (dataclass fields incl. InitVar/init=False, serialized methods, "
             "class-level order sequences/mappings, one level of inheritance); exhaustive over all ordering specs "
             "(None, order(v) v in {-1,0,1,999}, after/before any declared name incl. itself) for small field counts "
             "+ random; a case is distinct by (view, #elements, multiset of ordering kinds, inheritance, class-level "
             "override kind, outcome kind)",
        extra=dict(exhaustive=False, views=views_all))


def replay(data):
    case, v = data["replay"]["case"], data["replay"]["view"]
    print(case_src(case))
    print("observed now:", observe(case, [v])[v])
    print("model input:", coq_case(case, v, data["replay"]["observed"]))
