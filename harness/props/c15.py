"""C15 — field-set tracking: model (coq/Small/FieldsSet.v) vs real with_fields_set dataclasses under op sequences."""
import itertools

from harness import core, pyrun
from harness.core import coq_str, coq_list, coq_nat, coq_bool

HEADER = """From Coq Require Import List String Bool.
From AV Require Import Small.FieldsSet Core.Util.
Import ListNotations.
Open Scope string_scope.
"""
CASE_TYPE = "cls * list op * list string"
CHECKER = "(fun c : " + CASE_TYPE + " => let '(cl, ops, expected) := c in same_set (run cl ops) expected)"

FIELD_KINDS = ["plain", "plain", "plain", "initvar", "noinit", "das", "required"]


def gen_class(rng):
    """a with_fields_set dataclass, possibly inheriting from / decorated over other classes"""
    nb = rng.choice([0, 0, 1, 2])           # fields of the base class
    n = rng.randint(1, 3)
    names = ["a", "b", "c", "d", "e"]
    def mk(ns, allow_required):
        out = []
        for x in ns:
            k = rng.choice(FIELD_KINDS)
            if k == "required" and (not allow_required or any(f["kind"] != "required" for f in out)):
                k = "plain"
            out.append(dict(name=x, kind=k))
        return out
    base = mk(names[:nb], True)
    own = mk(names[nb:nb + n], not any(f["kind"] != "required" for f in base))
    return dict(base=base, own=own, base_decorated=rng.random() < 0.5 if base else False,
                post_init_writes=rng.choice([None, None, "first"]),
                # an undecorated subclass overriding __init__: x is assigned before delegating to the tracked __init__, y after
                sub=rng.random() < 0.3)


def class_src(c):
    L = ["from dataclasses import dataclass, field, InitVar",
         "from apischema.fields import with_fields_set",
         "from apischema.metadata import default_as_set", ""]

    def fields(fs):
        out = []
        for f in fs:
            n = f["name"]
            if f["kind"] == "plain":
                out.append(f"    {n}: int = 0")
            elif f["kind"] == "required":
                out.append(f"    {n}: int")
            elif f["kind"] == "initvar":
                out.append(f"    {n}: InitVar[int] = 0")
            elif f["kind"] == "noinit":
                out.append(f"    {n}: int = field(init=False, default=5)")
            elif f["kind"] == "das":
                out.append(f"    {n}: int = field(default=3, metadata=default_as_set)")
        return out or ["    pass"]
    if c["base"]:
        if c["base_decorated"]:
            L.append("@with_fields_set")
        L += ["@dataclass", "class Base:"] + fields(c["base"]) + [""]
    L += ["@with_fields_set", "@dataclass", "class A(Base):" if c["base"] else "class A:"] + fields(c["own"])
    ivs = [f["name"] for f in c["base"] + c["own"] if f["kind"] == "initvar"]
    allf = c["base"] + c["own"]
    if c["post_init_writes"] or ivs:
        L.append("    def __post_init__(self" + "".join(", " + i for i in ivs) + "):")
        tgt = [f["name"] for f in allf if f["kind"] in ("plain", "das", "noinit")]
        if c["post_init_writes"] and tgt:
            L.append(f"        self.{tgt[0]} = 42")
        else:
            L.append("        pass")
    if c.get("sub"):
        L += ["", "@dataclass(init=False)", "class S(A):", "    x: int = -1", "    y: int = -1",
              "    def __init__(self, *args, x: int = -1, y: int = -1, **kwargs):",
              "        self.x = x", "        super().__init__(*args, **kwargs)", "        self.y = y"]
    return "\n".join(L) + "\n"


def cls_coq(c):
    allf = c["base"] + c["own"]
    params = [f["name"] for f in allf if f["kind"] != "noinit"]
    ivs = [f["name"] for f in allf if f["kind"] == "initvar"]
    post = [f["name"] for f in allf if f["kind"] in ("noinit", "das")]
    assigned = [f["name"] for f in allf if f["kind"] != "initvar"]
    return (f"(mkFC {coq_list(map(coq_str, params))} {coq_list(map(coq_str, ivs))} {coq_list(map(coq_str, post))} "
            f"{coq_list(map(coq_str, assigned))})"), params


def gen_ops(rng, c, params, length):
    allf = c["base"] + c["own"]
    names = [f["name"] for f in allf] + (["x", "y"] if c.get("sub") else [])
    attrs = [f["name"] for f in allf if f["kind"] != "initvar"] + (["x", "y"] if c.get("sub") else [])
    required = [f["name"] for f in allf if f["kind"] == "required"]
    ops = []
    # first op is a construction (required parameters are always given, positionally: they come first)
    def new():
        nargs = rng.randint(len(required), min(len(params), len(required) + 2))
        rest = [p for p in params[nargs:]]
        kw = rng.sample(rest, rng.randint(0, len(rest)))
        return ("new", nargs, kw)
    ops.append(new())
    for _ in range(length):
        r = rng.random()
        if r < 0.1:
            ops.append(new())
        elif r < 0.17:
            nargs = rng.randint(len(required), min(len(params), len(required) + 2))
            ops.append(("reinit", nargs, rng.sample(params[nargs:], rng.randint(0, len(params[nargs:])))))
        elif r < 0.35 and attrs:
            ops.append(("setattr", rng.choice(attrs)))
        elif r < 0.55:
            ops.append(("set", rng.sample(names, rng.randint(0, min(2, len(names)))), rng.random() < 0.3))
        elif r < 0.75:
            ops.append(("unset", rng.sample(names, rng.randint(0, min(2, len(names))))))
        else:
            ch = [p for p in params if rng.random() < 0.3]
            ops.append(("replace", ch))
    return ops


def ops_coq(ops, sub=False):
    out = []
    for o in ops:
        if o[0] == "new" and sub:
            out += ["OAlloc", '(OSetAttr "x")', f"(OInit {coq_nat(o[1])} {coq_list(map(coq_str, o[2]))})", '(OSetAttr "y")']
        elif o[0] == "reinit" and sub:
            out += ['(OSetAttr "x")', f"(OInit {coq_nat(o[1])} {coq_list(map(coq_str, o[2]))})", '(OSetAttr "y")']
        elif o[0] == "reinit":
            out.append(f"(OInit {coq_nat(o[1])} {coq_list(map(coq_str, o[2]))})")
        elif o[0] == "new":
            out.append(f"(ONew {coq_nat(o[1])} {coq_list(map(coq_str, o[2]))})")
        elif o[0] == "setattr":
            out.append(f"(OSetAttr {coq_str(o[1])})")
        elif o[0] == "set":
            out.append(f"(OSetFields {coq_list(map(coq_str, o[1]))} {coq_bool(o[2])})")
        elif o[0] == "unset":
            out.append(f"(OUnsetFields {coq_list(map(coq_str, o[1]))})")
        else:
            out.append(f"(OReplace {coq_list(map(coq_str, o[1]))})")
    return coq_list(out)


def run_ops(A, params, ops):
    from apischema.fields import fields_set, set_fields, unset_fields
    from apischema.dataclasses import replace
    obj = None
    for o in ops:
        if o[0] == "new":
            obj = A(*([1] * o[1]), **{k: 2 for k in o[2]})
        elif o[0] == "reinit":
            obj.__init__(*([1] * o[1]), **{k: 2 for k in o[2]})
        elif o[0] == "setattr":
            setattr(obj, o[1], 9)
        elif o[0] == "set":
            set_fields(obj, *o[1], overwrite=o[2])
        elif o[0] == "unset":
            unset_fields(obj, *o[1])
        else:
            source, before = obj, sorted(fields_set(obj))
            obj = replace(obj, **{k: 7 for k in o[1]})
            if sorted(fields_set(source)) != before:       # replace builds a new object: the source keeps its own set
                LEAKS.append((before, sorted(fields_set(source)), list(o[1])))
    return obj, sorted(fields_set(obj))


LEAKS = []


def run(tier):
    R = core.Run("C15", tier)
    R.trusted = core.TRUSTED_COMMON + ["model of fields.py / dataclasses.replace (coq/Small/FieldsSet.v); what the decorator reads "
                                       "from the dataclass (parameter order, InitVars, init=False, default_as_set) is computed by the harness"]
    R.coq_build(["Small/FieldsSet.v", "Small/FieldsSetProofs.v", "Ser/Proofs.v"])
    pyrun.ensure_repo_on_path()
    from apischema import deserialize, serialize
    from apischema.fields import fields_set
    rng = R.rng
    ncls, nseq = dict(quick=(150, 12), thorough=(1500, 30))[tier]
    items, meta = [], []
    for ci in range(ncls):
        c = gen_class(rng)
        src = class_src(c)
        try:
            mod = pyrun.exec_module(src)
        except Exception as e:
            R.count("class_rejected:" + type(e).__name__)
            continue
        A = mod.S if c["sub"] else mod.A
        ccoq, params = cls_coq(c)
        allf = c["base"] + c["own"]
        sub_fields = ["x", "y"] if c["sub"] else []
        for si in range(nseq):
            ops = gen_ops(rng, c, params, rng.randint(0, 5))
            try:
                LEAKS.clear()
                obj, fs = run_ops(A, params, ops)
            except Exception as e:
                R.violation(f"operation sequence raised {type(e).__name__}: {e}", dict(source=src, ops=ops))
                continue
            for before, after, changed in LEAKS[:1]:
                R.violation(f"replace(obj, {changed}) changed the fields_set of the source object from {before} to {after}",
                            dict(source=src, ops=ops))
            R.note_case((tuple(sorted(f["kind"] for f in allf)), bool(c["base"]), c["base_decorated"], c["sub"], tuple(o[0] for o in ops)),
                        sample=dict(source=src, ops=ops, fields_set=fs))
            R.count("ops:%d" % len(ops))
            items.append(f"({ccoq}, {ops_coq(ops, c['sub'])}, {coq_list(map(coq_str, fs))})")
            meta.append((src, ops, fs))
            # serialization: exclude_unset emits exactly the set fields, exclude_unset=False all of them
            attrs = [f["name"] for f in allf if f["kind"] != "initvar"] + sub_fields
            out = serialize(A, obj)
            if sorted(out) != sorted(set(fs) & set(attrs)):
                R.violation(f"serialize(exclude_unset) emitted {sorted(out)} but fields_set is {fs}", dict(source=src, ops=ops))
            out2 = serialize(A, obj, exclude_unset=False)
            if sorted(out2) != sorted(attrs):
                R.violation(f"serialize(exclude_unset=False) emitted {sorted(out2)}, fields are {attrs}", dict(source=src, ops=ops))
        # deserialize: every subset of keys (bounded)
        keys = [f["name"] for f in allf if f["kind"] != "noinit"]
        req = [f["name"] for f in allf if f["kind"] == "required"]
        subsets = list(itertools.chain.from_iterable(itertools.combinations(keys, k) for k in range(len(keys) + 1)))
        for sub in (subsets if len(subsets) <= 16 else rng.sample(subsets, 16)):
            sub = sorted(set(sub) | set(req))
            try:
                obj = deserialize(A, {k: 1 for k in sub})
            except Exception as e:
                R.violation(f"deserialize raised {type(e).__name__}: {e}", dict(source=src, keys=sub))
                continue
            fs = sorted(fields_set(obj))
            ops = [("new", 0, sub)]
            R.note_case(("deser", tuple(sorted(f["kind"] for f in allf)), c["sub"], len(sub)), sample=dict(source=src, keys=sub, fields_set=fs))
            R.count("deserialize")
            items.append(f"({ccoq}, {ops_coq(ops, c['sub'])}, {coq_list(map(coq_str, fs))})")
            meta.append((src, ops, fs))
        pyrun.drop_module(mod)
    bad, errs = core.run_coq_shards("C15", HEADER, items, CHECKER, item_type=CASE_TYPE)
    for k, e in errs:
        R.broken.append(f"coq evaluation failed (shard {k}): {e[-300:]}")
    for i in bad[:10]:
        src, ops, fs = meta[i]
        R.violation(f"fields_set {fs} differs from the documented set computed by the model", dict(source=src, ops=ops, observed=fs))
    return R.finish(
        rule="with_fields_set dataclasses (0-2 inherited + 1-3 own fields: plain / required / InitVar / init=False / default_as_set, "
             "decorated or undecorated base, __post_init__ writing a field, optionally an undecorated subclass overriding __init__ and "
             "assigning attributes before / after delegating) x random operation sequences of length <= 6 "
             "(constructor with positional/keyword args, __init__ called again, setattr, set_fields(overwrite), unset_fields, replace) and "
             "deserialize on subsets of keys; fields_set compared with the model, serialize(exclude_unset) with the set")


def replay(data):
    print(data["replay"].get("source"))
    print(data["replay"].get("ops"))
