"""C07 — serialized data validates against serialization_schema."""
import json

from harness import core, pyrun, gen_deser as G, gen_ser as S
from harness.core import coq_bool
from harness.ser_run import SProducer
from harness.descr import data_coq, ty_coq, value_coq
from harness.schema_coq import doc_coq, Unsupported

NEEDED = ["Schema/Json.v", "Schema/Build.v", "Schema/Run.v", "Schema/Proofs.v", "Ser/Model.v", "Ser/Spec.v",
          "Ser/RoundTripInd.v", "Schema/AgreeProofs.v", "Schema/SerAgree.v", "Schema/BuildSer.v", "Ser/ImageInv.v", "Schema/SerClassProofs.v", "Schema/SerRequired.v", "Schema/ImageInvGen.v", "Schema/SerClassGen.v"]
HEADER_EXTRA = "From AV Require Import Schema.Json Schema.Build Schema.Run.\n"


def to_data(j):
    """JSON output of serialize -> data descriptor (same representation)"""
    return j


def json_in_domain(j):
    if isinstance(j, bool) or j is None or isinstance(j, str):
        return True
    if isinstance(j, int):
        return abs(j) < 2 ** 1000
    if isinstance(j, float):
        return j == j and abs(j) != float("inf") and j != int(j) and j * 4 == int(j * 4)
    if isinstance(j, list):
        return all(json_in_domain(x) for x in j)
    if isinstance(j, dict):
        return all(isinstance(k, str) and json_in_domain(v) for k, v in j.items())
    return False


def member_collision(v, depth=0):
    """a set / frozenset holding an enum member next to a value equal to that member's value: distinct in Python, equal in JSON"""
    import enum
    import dataclasses
    if depth > 8:
        return False
    if isinstance(v, (set, frozenset)):
        vals = [x.value for x in v if isinstance(x, enum.Enum)]
        plain = [x for x in v if not isinstance(x, enum.Enum)]
        if any(a == b and type(a) is type(b) or (isinstance(a, (int, float)) and isinstance(b, (int, float)) and a == b)
               for a in vals for b in plain) or len(set(map(repr, vals))) < len(vals):
            return True
        # the same at any depth inside the members: (E.A, E.A) next to ('a', E.A), frozenset({1}) next to (1,)
        imgs = [repr(S._json_image(x)) for x in v]
        if len(set(imgs)) < len(imgs):
            return True
    if isinstance(v, (list, tuple, set, frozenset)):
        return any(member_collision(x, depth + 1) for x in v)
    if isinstance(v, dict):
        return any(member_collision(x, depth + 1) for x in v.values())
    if dataclasses.is_dataclass(v) and not isinstance(v, type):
        return any(member_collision(getattr(v, f.name), depth + 1) for f in dataclasses.fields(v))
    if isinstance(v, tuple) and hasattr(v, "_fields"):
        return any(member_collision(x, depth + 1) for x in v)
    return False


def set_collision_probe(R, jsonschema):
    """directed probe of KF-C07-set-members-equal-json"""
    pyrun.ensure_repo_on_path()
    import enum
    from typing import FrozenSet, Union
    from apischema import serialize
    from apischema.json_schema import serialization_schema

    class _E(enum.Enum):
        M = 2
    tp = FrozenSet[Union[int, _E]]
    out = serialize(tp, frozenset({2, _E.M}))
    doc = json.loads(json.dumps(serialization_schema(tp, with_schema=False)))
    R.count("set_collision_probe")
    if list(jsonschema.Draft202012Validator(doc).iter_errors(out)):
        if not R.known_match("set-members-equal-json"):
            R.violation(f"serialize(FrozenSet[Union[int, E]], {{2, E.M}}) = {out!r} violates uniqueItems of its schema", dict(schema=doc, output=out))


def has_obj(t):
    if t[0] == "obj":
        return True
    if t[0] in ("coll", "con"):
        return has_obj(t[2])
    if t[0] in ("tuple", "union"):
        return any(has_obj(x) for x in t[1])
    if t[0] == "map":
        return has_obj(t[1]) or has_obj(t[2])
    return False


def run(tier):
    R = core.Run("C07", tier)
    R.trusted = core.TRUSTED_COMMON + [
        "the oracle is jsonschema (Draft 2020-12) on serialization_schema(T); Schema/Json.v jvalid is compared with it on the "
        "same (schema, output) pairs",
        "exclude_defaults / exclude_none are set as global settings (settings.serialization) around both calls and restored"]
    R.coq_build(NEEDED)
    pyrun.ensure_repo_on_path()
    import jsonschema
    from apischema import serialize, settings
    from apischema.json_schema import serialization_schema
    n = dict(quick=(70, 8, 4), thorough=(700, 10, 6))[tier]

    def make_opts(rng):
        o = S.gen_sopts(rng, pass_through=False)
        o["exclude_unset"] = rng.random() < 0.3
        return o
    P = SProducer(R, *n, depth=3, make_opts=make_opts, pass_through=False)
    schemas, sdefs, vcases, vmeta = {}, [], [], []
    tcases, tmeta = [], []      # object-free cases: candidates for the proved theorem (Schema/SerAgree.v)
    bcases, bmeta, bseen = [], [], set()   # one per distinct (universe, options, type): builder model vs serialization_schema
    ccases = []                            # every validated case, for the theorem with classes

    def unset_drops(c):
        """fields dropped by unset-tracking: outside the property"""
        return c.opts["exclude_unset"] and any(cl.get("fields_set") for cl in c.u["classes"])

    def hook(U, c):
        if c.kind != "ok":
            return
        if unset_drops(c):
            R.count("excluded:unset_tracking")
            return
        if not S.satisfies(c.t, c.value, c.u):
            R.count("excluded:value_violates_constraints")
            return
        T = U.type(c.t)
        al = G.ALIASERS[c.opts["aliaser"]][0]
        old = (settings.serialization.exclude_defaults, settings.serialization.exclude_none)
        try:
            settings.serialization.exclude_defaults = c.opts["exclude_defaults"]
            settings.serialization.exclude_none = c.opts["exclude_none"]
            key = (c.uidx, repr(c.t), c.opts["aliaser"], c.opts["additional_properties"], c.opts["exclude_defaults"],
                   c.opts["exclude_none"])
            if key not in schemas:
                ent = dict(idx=len(schemas), doc=None, coq=False)
                try:
                    ent["doc"] = json.loads(json.dumps(serialization_schema(T, aliaser=al, with_schema=False,
                                                                            additional_properties=c.opts["additional_properties"])))
                except ValueError as e:
                    if "string-convertible" not in str(e):
                        R.violation(f"serialization_schema raised ValueError: {e}", c.to_json())
                except Exception as e:
                    R.violation(f"serialization_schema raised {type(e).__name__}: {e}", c.to_json())
                if ent["doc"] is not None:
                    try:
                        s, ds = doc_coq(ent["doc"])
                        sdefs.append(f"Definition S{ent['idx']} : js := {s}.\nDefinition D{ent['idx']} : defs := {ds}.")
                        ent["coq"] = True
                    except Unsupported as e:
                        R.count("schema_outside_model:" + str(e).split()[0])
                schemas[key] = ent
            ent = schemas[key]
            if ent["doc"] is None:
                return
            try:
                out = serialize(T, c.value, aliaser=al, additional_properties=c.opts["additional_properties"],
                                exclude_unset=c.opts["exclude_unset"], no_copy=c.opts["no_copy"], check_type=False,
                                fall_back_on_any=False)
            except Exception as e:
                R.violation(f"serialize with global exclude settings raised {type(e).__name__}: {e} (per-call options succeed)",
                            c.to_json())
                return
            try:
                j = json.loads(json.dumps(out))
            except Exception as e:
                R.violation(f"serialize output is not JSON-serializable: {e}", c.to_json())
                return
            if j != json.loads(json.dumps(c.payload)):
                R.violation("serialize gives different outputs with exclude_defaults / exclude_none passed per call and set "
                            "as global settings", dict(c.to_json(), global_output=j))
                return
            errors = list(jsonschema.Draft202012Validator(ent["doc"]).iter_errors(j))
            R.count("validated" if not errors else "invalid")
            oracle_valid = not errors          # jsonschema's own verdict, whatever is attributed to a recorded finding below
            if errors and all(e.validator == "uniqueItems" for e in errors) and member_collision(c.value) \
                    and R.known_match("set-members-equal-json"):
                errors = []
            if errors:
                e = errors[0]
                R.violation(f"serialize output is invalid against serialization_schema: {e.message[:160]} at "
                            f"{list(e.absolute_path)}", dict(c.to_json(), output=j, schema=ent["doc"]))
            if ent["coq"] and ent["idx"] not in bseen:
                bseen.add(ent["idx"])
                bcases.append(f"(U{c.uidx}, {S.sopts_coq(c.opts)}, {ty_coq(c.t)}, S{ent['idx']}, D{ent['idx']})")
                bmeta.append(dict(c.to_json(), schema=ent["doc"]))
            if ent["coq"]:
                try:
                    ccases.append(f"(U{c.uidx}, {S.sopts_coq(c.opts)}, {ty_coq(c.t)}, {value_coq(c.value, U.mod, sort_sets=False)})")
                except Exception:
                    R.count("value_outside_fragment")
            if ent["coq"] and json_in_domain(j):
                try:
                    vcases.append(f"(S{ent['idx']}, D{ent['idx']}, {data_coq(j)}, {coq_bool(oracle_valid)})")
                    vmeta.append(dict(c.to_json(), output=j, schema=ent["doc"], oracle=oracle_valid))
                    if not has_obj(c.t):
                        tcases.append(f"(U{c.uidx}, {S.sopts_coq(c.opts)}, {ty_coq(c.t)}, {value_coq(c.value, U.mod, sort_sets=False)}, "
                                      f"S{ent['idx']}, D{ent['idx']}, {data_coq(j)})")
                        tmeta.append(dict(c.to_json(), output=j, schema=ent["doc"]))
                except Exception:
                    R.count("output_outside_fragment")
        finally:
            settings.serialization.exclude_defaults, settings.serialization.exclude_none = old

    P.hooks.append(hook)
    P.run()
    from harness import probes
    probes.late_serialized_method(R)
    nested_global_probe(R, jsonschema)
    set_collision_probe(R, jsonschema)
    probes.dynamic_over_default_conversion(R)
    probes.aggregate_probe(R, aspects=("ser_schema",), n_classes=(30 if tier == "quick" else 200))
    probes.discriminator_schema_probe(R, {'ser_agree'})
    header = P.header() + HEADER_EXTRA + "\n".join(sdefs) + "\n"
    T2 = "js * defs * pyval * bool"
    bad2, errs = core.run_coq_shards("C07_valid", header, vcases,
                                     "(fun c : " + T2 + " => let '(s, ds, d, v) := c in Bool.eqb (jvalid true ds fuel_s s d) v)",
                                     item_type=T2, shard=300)
    for k, e in errs:
        R.broken.append(f"coq evaluation failed (C07_valid shard {k}): {e[-300:]}")
    for i in bad2[:5]:
        R.broken.append("the validator model (Schema/Json.v jvalid) disagrees with jsonschema on " + json.dumps(vmeta[i])[:700])
    R.hist["validator_cases"] = len(vcases)
    R.hist["validator_mismatches"] = len(bad2)
    # the model of the serialization schema builder (Schema/BuildSer.v) against serialization_schema, structurally
    T4 = "univ * sopts * ty * js * defs"
    bad4, errs = core.run_coq_shards(
        "C07_build", header + "From AV Require Import Ser.Spec Schema.BuildSer.\n", bcases,
        "(fun c : " + T4 + " => let '(u, so, t, s, ds) := c in let '(ms, mds) := model_ser_schema u so false t in "
        "js_eqb ms s && defs_eqb mds ds)", item_type=T4, shard=200)
    for k, e in errs:
        R.broken.append(f"coq evaluation failed (C07_build shard {k}): {e[-300:]}")
    for i in bad4[:5]:
        R.broken.append("the model of the serialization schema builder (Schema/BuildSer.v) differs from serialization_schema on "
                        + json.dumps(bmeta[i])[:900])
    R.hist["builder_cases"] = len(bcases)
    # cases within the hypotheses of C07_output_validates_with_classes (classes included)
    T5 = "univ * sopts * ty * value"
    outside5, errs = core.run_coq_shards(
        "C07_hyps_classes", header + "From AV Require Import Ser.Spec Ser.RoundTrip Ser.RoundTripInd Schema.BuildSer Schema.SerClassProofs.\n",
        ccases, "(fun c : " + T5 + " => let '(u, so, t, v) := c in ser_hyps u so t 40 ser_fuel v)", item_type=T5, shard=300)
    for k, e in errs:
        R.broken.append(f"coq evaluation failed (C07_hyps_classes shard {k}): {e[-300:]}")
    R.hist["cases_within_the_theorem_with_classes"] = len(ccases) - len(outside5)
    # ... and of C07_output_validates_under_every_serialization_option (skip options, exclude_* settings, methods; inline)
    outside7, errs = core.run_coq_shards(
        "C07_hyps_all_options", header + "From AV Require Import Ser.Spec Ser.RoundTrip Ser.RoundTripInd Schema.BuildSer Schema.SerClassProofs Schema.ImageInvGen Schema.SerClassGen.\n",
        ccases, "(fun c : " + T5 + " => let '(u, so, t, v) := c in gen_hyps u so t 40 v || gen_hyps_refs u so t 40 v)", item_type=T5, shard=300)
    for k, e in errs:
        R.broken.append(f"coq evaluation failed (C07_hyps_all_options shard {k}): {e[-300:]}")
    R.hist["cases_within_the_theorem_every_option"] = len(ccases) - len(outside7)
    # objects within the hypotheses of C07_required_keys_always_emitted_and_emitted_keys_declared (every class: skip options,
    # methods, TypedDicts, exclude_* settings), with the conclusion re-evaluated on the model
    chk = ("(fun c : " + T5 + " => let '(u, so, t, v) := c in match t with TObj cid => "
           "if has_type u 40 t v && negb (so_excl_unset so && cd_fields_set (get_cls u cid)) then "
           "match image u so 40 t v with SROk (VDict out) => match unembed_items out with Some ds => "
           "negb (required_ok (map (elem_alias so) (filter (elem_required so (get_cls u cid)) (elems_of (get_cls u cid)))) (PDict ds)) "
           "| None => false end | _ => false end else false | _ => false end)")
    objs = [c for c in ccases]
    hit6, errs = core.run_coq_shards(
        "C07_required", header + "From AV Require Import Ser.Spec Ser.RoundTrip Ser.RoundTripInd Schema.BuildSer Schema.SerRequired.\n",
        objs, "(fun c => negb (" + chk + " c))", item_type=T5, shard=300)
    for k, e in errs:
        R.broken.append(f"coq evaluation failed (C07_required shard {k}): {e[-300:]}")
    for i in hit6[:3]:
        R.broken.append("a key required by the serialization schema model is missing from the image of a well-typed object "
                        "(C07_required_keys_always_emitted no longer describes the models): " + objs[i][:600])
    R.hist["required_keyword_conclusions_reevaluated"] = len(objs)
    R.hist["builder_mismatches"] = len(bad4)
    # the proved fragment (C07_object_free_output_validates): on the cases within its hypotheses, the schema the theorem speaks
    # about (the builder model) is the implementation's serialization_schema, and its conclusion is re-evaluated
    T3 = "univ * sopts * ty * value * js * defs * pyval"
    hyps = ("(let refs := refs_pred (refs_of u (fun _ => false) false t) in rt_ty u t && no_obj t && has_type u 40 t v && canonical u v "
            "&& obj_free t && wf_con t && con_mergeable u (dopts_of so) refs fuel_s false t && keys_ok u t && in_domain d)")
    th_header = header + "From AV Require Import Ser.Spec Ser.RoundTrip Ser.RoundTripInd Schema.AgreeProofs Schema.SerAgree.\n"
    outside, errs = core.run_coq_shards("C07_hyps", th_header, tcases,
                                        "(fun c : " + T3 + " => let '(u, so, t, v, s, ds, d) := c in " + hyps + ")", item_type=T3, shard=300)
    for k, e in errs:
        R.broken.append(f"coq evaluation failed (C07_hyps shard {k}): {e[-300:]}")
    bad3, errs = core.run_coq_shards(
        "C07_thm", th_header, tcases,
        "(fun c : " + T3 + " => let '(u, so, t, v, s, ds, d) := c in negb " + hyps + " || "
        "(let '(ms, mds) := model_schema u (dopts_of so) false None t in js_eqb ms s && defs_eqb mds ds && jvalid false mds fuel_s ms d))",
        item_type=T3, shard=300)
    for k, e in errs:
        R.broken.append(f"coq evaluation failed (C07_thm shard {k}): {e[-300:]}")
    for i in bad3[:5]:
        R.violation("object-free type: serialization_schema differs from the schema model the theorem is stated on, or the output "
                    "does not validate against it", tmeta[i], no_input=True)
    R.hist["object_free_cases"] = len(tcases)
    R.hist["cases_within_the_proved_theorem"] = len(tcases) - len(outside)
    return R.finish(
        rule="the C04 universes (dataclass / NamedTuple / TypedDict, skip / none_as_undefined / Undefined fields, serialized "
             "methods, ordering, fields_set) x types of depth <= 3 x well-typed values x global exclude_defaults / exclude_none "
             "x aliaser x additional_properties x no_copy; cases where unset-tracking drops fields are excluded; every output is "
             "validated with jsonschema against serialization_schema generated under the same settings; object-free cases within "
             "the hypotheses of C07_object_free_output_validates: serialization_schema = the schema model, conclusion re-evaluated")


NESTED_SRC = '''
from dataclasses import dataclass, field
from typing import List, Optional, Dict

@dataclass
class Leaf:
    with_default: int = 1
    opt: Optional[int] = None
    req_opt: Optional[str] = field(default="s")

@dataclass
class Mid:
    leaf: Leaf
    leaves: List[Leaf] = field(default_factory=list)
    tag: str = "t"

@dataclass
class Top:
    mid: Mid
    by_name: Dict[str, Mid] = field(default_factory=dict)
    n: Optional[int] = None
'''


def nested_global_probe(R, jsonschema):
    """nested (non recursive) objects under each combination of the global exclude settings"""
    import apischema.cache
    from apischema import serialize, settings
    from apischema.json_schema import serialization_schema
    mod = pyrun.exec_module(NESTED_SRC)
    Leaf, Mid, Top = mod.Leaf, mod.Mid, mod.Top
    values = [Top(Mid(Leaf())), Top(Mid(Leaf(1, None, None), [Leaf(2, 3, "x"), Leaf()], "t"), {"k": Mid(Leaf(1, 5, "s"))}, 4),
              Top(Mid(Leaf(7, None, "s"), [], "u"), {}, None)]
    old = (settings.serialization.exclude_defaults, settings.serialization.exclude_none)
    try:
        for ed in (False, True):
            for en in (False, True):
                settings.serialization.exclude_defaults, settings.serialization.exclude_none = ed, en
                for tp, vs in ((Top, values), (Mid, [v.mid for v in values]), (mod.__dict__["List"][Mid], [[v.mid for v in values]])):
                    doc = json.loads(json.dumps(serialization_schema(tp, with_schema=False)))
                    for v in vs:
                        R.count("nested_global_probe")
                        out = serialize(tp, v)
                        errors = list(jsonschema.Draft202012Validator(doc).iter_errors(out))
                        if errors:
                            R.violation(f"exclude_defaults={ed}, exclude_none={en} (global): serialize output {out!r} is invalid against "
                                        f"serialization_schema: {errors[0].message[:120]} at {list(errors[0].absolute_path)}",
                                        dict(source=NESTED_SRC, schema=doc, output=out))
    finally:
        settings.serialization.exclude_defaults, settings.serialization.exclude_none = old
        pyrun.drop_module(mod)
        apischema.cache.reset()


def replay(data):
    r = data["replay"]
    for k in ("python_source", "python_type", "value", "opts", "output", "schema"):
        if k in r:
            print(f"--- {k}\n{r[k] if isinstance(r[k], str) else json.dumps(r[k])}")
