"""C06 — deserialize and deserialization_schema agree on what is valid."""
import json
import math

from harness import core, pyrun, gen_deser as G
from harness.core import coq_bool, coq_list
from harness.deser_run import Producer
from harness.descr import data_real, data_coq, ty_coq, ty_src, con_opt_coq, con_src, Other
from harness.schema_coq import doc_coq, Unsupported

NEEDED = ["Core/TextProofs.v", "Schema/DepReqAgree.v", "Schema/ObjAgree.v", "Schema/NestAgree.v", "Schema/RefAgree.v",
          "Deser/Model.v", "Deser/Spec.v", "Deser/Proofs.v", "Schema/Json.v", "Schema/Build.v", "Schema/Run.v",
          "Schema/Proofs.v", "Schema/ConProofs.v", "Schema/ShapeProofs.v", "Schema/AgreeProofs.v"]

HEADER_EXTRA = """From AV Require Import Schema.Json Schema.Build Schema.Run.
"""


def in_domain(d):
    """JSON values of the common semantic domain: no foreign object, nan / inf, integer-valued float, huge integer"""
    if isinstance(d, Other):
        return False
    if isinstance(d, bool) or d is None or isinstance(d, str):
        return True
    if isinstance(d, int):
        return abs(d) < 2 ** 1000
    if isinstance(d, float):
        return math.isfinite(d) and d != int(d)
    if isinstance(d, list):
        return all(in_domain(x) for x in d)
    if isinstance(d, dict):
        return all(isinstance(k, str) and in_domain(v) for k, v in d.items())
    return False


def json_equal(a, b):
    if isinstance(a, bool) or isinstance(b, bool):
        return isinstance(a, bool) and isinstance(b, bool) and a == b
    if isinstance(a, (int, float)) and isinstance(b, (int, float)):
        return a == b
    if isinstance(a, list) and isinstance(b, list):
        return len(a) == len(b) and all(json_equal(x, y) for x, y in zip(a, b))
    if isinstance(a, dict) and isinstance(b, dict):
        return a.keys() == b.keys() and all(json_equal(a[k], b[k]) for k in a)
    return type(a) is type(b) and a == b


def has_dup_array(d):
    """an array with two equal elements (JSON equality)"""
    if isinstance(d, list):
        for i, x in enumerate(d):
            for y in d[i + 1:]:
                if json_equal(x, y):
                    return True
        return any(has_dup_array(x) for x in d)
    if isinstance(d, dict):
        return any(has_dup_array(v) for v in d.values())
    return False


def has_set(t, u, seen=None):
    seen = set() if seen is None else seen
    k = t[0]
    if k == "coll":
        return t[1] in ("set", "frozenset", "abstractset") or has_set(t[2], u, seen)
    if k == "con":
        return has_set(t[2], u, seen)
    if k in ("tuple", "union"):
        return any(has_set(x, u, seen) for x in t[1])
    if k == "map":
        return has_set(t[1], u, seen) or has_set(t[2], u, seen)
    if k == "obj":
        if t[1] in seen:
            return False
        seen.add(t[1])
        return any(has_set(f["ty"], u, seen) for f in u["classes"][t[1]]["fields"])
    return False


def make_data(rng, u, t, opts):
    d = G.gen_valid(rng, u, t, 3, opts)
    r = rng.random()
    if r < 0.45:
        d = G.mutate(rng, d)
        if rng.random() < 0.3:
            d = G.mutate(rng, d)
    elif r < 0.5:
        d = rng.choice(G.ATOMS)
    elif r < 0.62:
        d = tweak(rng, d)
    return d


def tweak(rng, d):
    """mutations aimed at mapping keys and at uniqueness"""
    if isinstance(d, dict):
        r = rng.random()
        if d and r < 0.4:
            kk = rng.choice(list(d))
            return {(k if k != kk else rng.choice(["", "zz", "ab", "b"])): v for k, v in d.items()}
        if r < 0.7:
            out = dict(d)
            out[rng.choice(["", "zz", "ab", "a"])] = rng.choice([1, "a", None, 1.5])
            return out
        if d:
            kk = rng.choice(list(d))
            return {k: (tweak(rng, v) if k == kk else v) for k, v in d.items()}
    if isinstance(d, list):
        r = rng.random()
        if r < 0.35:
            return d + rng.choice([[True, 1], [0, False], [1, 1], [["a", 1], {"a": 1}], ["a", "a"], [None, None]])
        if d and r < 0.6:
            return d + [d[0]]
        if d:
            i = rng.randrange(len(d))
            return d[:i] + [tweak(rng, d[i])] + d[i + 1:]
    return d


def layered_type(rng, u, depth):
    """sometimes a chain of three schema annotations (aliases layered on aliases), flattened by typing into one Annotated"""
    if rng.random() < 0.1:
        base = rng.choice(["int", "float", "str", "list"])
        if base in ("int", "float"):
            layers = [{"min": 1}, {"max": 10}, {"mult_of": 2}]
            t = (base,)
        elif base == "str":
            layers = [{"min_len": 1}, {"max_len": 3}, {"pattern": "a"}]
            t = ("str",)
        else:
            layers = [{"min_items": 1}, {"max_items": 2}, {"unique": True}]
            t = ("coll", "list", ("int",))
        rng.shuffle(layers)
        for c in layers:
            t = ("con", c, t)
        return t
    return G.gen_type(rng, u, depth)


def no_fallback_universe(rng):
    u = G.gen_universe(rng)
    for c in u["classes"]:
        for f in c["fields"]:
            f["fallback"] = False          # fall_back_on_default accepts data the schema rejects: outside C06
    return u


def run(tier):
    R = core.Run("C06", tier)
    R.trusted = core.TRUSTED_COMMON + [
        "Schema/Json.v jvalid is the hand-written standard semantics of the keywords the builder emits; it is compared on "
        "every run with the independent validator jsonschema (Draft 2020-12) on the implementation's schemas",
        "Schema/Build.v is a hand-written model of json_schema/schema.py + refs.py, compared structurally with "
        "deserialization_schema() on every generated type (annotations title/default/... are not compared)",
        "common domain: start-anchored literal patterns, no integer-valued float, |int| < 2^1000, set uniqueness not compared"]
    R.coq_build(NEEDED)
    pyrun.ensure_repo_on_path()
    import jsonschema
    from apischema import schema as schema_
    from apischema.json_schema import deserialization_schema
    n = dict(quick=(90, 6, 7), thorough=(900, 8, 10))[tier]
    opts_gen = lambda r: dict(G.gen_opts(r, coerce=False), fall_back_on_default=False, all_refs=r.random() < 0.4)
    P = Producer(R, *n, depth=3, make_opts=opts_gen, make_data=make_data, make_type=layered_type, roots=True, matrix=1,
                 make_universe=no_fallback_universe)
    schemas = {}          # key -> dict(idx, doc or None, coq)
    sdefs = []            # header definitions
    scases = []           # schema cases
    vcases, vmeta = [], []
    acases, ameta = [], []

    def no_fallback(u):
        return not any(f.get("fallback") for c in u["classes"] for f in c["fields"])

    def hook(U, c):
        if not no_fallback(c.u):
            R.count("skipped:fall_back_on_default_metadata")
            return
        key = (c.uidx, repr(c.t), repr(sorted(c.opts.items())), repr(c.root))
        if key not in schemas:
            kw = dict(additional_properties=c.opts["additional_properties"], aliaser=G.ALIASERS[c.opts["aliaser"]][0],
                      all_refs=c.opts["all_refs"], with_schema=False)
            if c.root is not None:
                kw["schema"] = eval(con_src(c.root), {"schema": schema_})
            ent = dict(idx=len(schemas), doc=None, coq=None, err=None)
            try:
                ent["doc"] = json.loads(json.dumps(deserialization_schema(U.type(c.t), **kw)))
            except RecursionError:
                R.violation("deserialization_schema raised RecursionError", c.to_json())
                ent["err"] = "RecursionError"
            except ValueError as e:
                ent["err"] = f"ValueError: {e}"
                if "string-convertible" not in str(e):
                    R.violation(f"deserialization_schema raised {ent['err']}", c.to_json())
            except Exception as e:
                ent["err"] = f"{type(e).__name__}: {e}"
                R.violation(f"deserialization_schema raised {ent['err']}", c.to_json())
            if ent["doc"] is not None:
                try:
                    s, ds = doc_coq(ent["doc"])
                    ent["coq"] = f"(Some ({s}, {ds}))"
                    sdefs.append(f"Definition S{ent['idx']} : js := {s}.\nDefinition D{ent['idx']} : defs := {ds}.")
                except Unsupported as e:
                    R.count("schema_outside_model:" + str(e).split()[0])
            elif ent["err"] and "string-convertible" in ent["err"]:
                ent["coq"] = "None"
            if ent["coq"] is not None:
                scases.append(f"(U{c.uidx}, {G.opts_coq(c.opts)}, {coq_bool(c.opts['all_refs'])}, {con_opt_coq(c.root)}, "
                              f"{ty_coq(c.t)}, {ent['coq']})")
                ent["scase"] = len(scases) - 1
                ent["case"] = c
            schemas[key] = ent
        ent = schemas[key]
        if ent["doc"] is None or c.kind == "crash" or not in_domain(c.data):
            R.count("not_compared:" + ("no_schema" if ent["doc"] is None else c.kind if c.kind == "crash" else "out_of_domain"))
            return
        accepted = c.kind == "ok"
        try:
            valid = jsonschema.Draft202012Validator(ent["doc"]).is_valid(data_real(c.data))
        except Exception as e:
            R.broken.append(f"jsonschema failed: {type(e).__name__}: {e}")
            return
        R.count(f"deserialize:{'accepts' if accepted else 'rejects'}/schema:{'valid' if valid else 'invalid'}")
        dup = has_dup_array(c.data)
        if accepted != valid:
            if dup and has_set(c.t, c.u):
                R.count("excluded:duplicates_in_arrays")
            else:
                R.violation(f"deserialize {'accepts' if accepted else 'rejects'} but the data is "
                            f"{'valid' if valid else 'invalid'} against deserialization_schema",
                            dict(c.to_json(), schema=ent["doc"], all_refs=c.opts["all_refs"]))
        # the validator model against the oracle, on the implementation's schema
        if ent.get("coq") and ent["coq"] != "None":
            vcases.append(f"(S{ent['idx']}, D{ent['idx']}, {data_coq(c.data)}, {coq_bool(valid)})")
            vmeta.append(dict(c.to_json(), schema=ent["doc"], oracle_valid=valid))
            if not dup:
                acases.append(f"(U{c.uidx}, {G.opts_coq(c.opts)}, {coq_bool(c.opts['all_refs'])}, {con_opt_coq(c.root)}, "
                              f"{ty_coq(c.t)}, {data_coq(c.data)})")
                ameta.append(dict(c.to_json(), schema=ent["doc"]))

    P.hooks.append(hook)
    P.run()
    from harness import probes
    probes.conversion_extra_probe(R)
    probes.discriminator_schema_probe(R, {'agree'})
    header = P.header() + HEADER_EXTRA
    # 1. the builder model is the implementation's builder
    T1 = "univ * dopts * bool * option constraints * ty * option (js * defs)"
    bad, errs = core.run_coq_shards("C06_build", header, scases,
                                    "(fun c : " + T1 + " => let '(u, o, ar, root, t, impl) := c in schema_case u o ar root t impl)",
                                    item_type=T1, shard=150)
    for k, e in errs:
        R.broken.append(f"coq evaluation failed (C06_build shard {k}): {e[-300:]}")
    by_scase = {e["scase"]: e for e in schemas.values() if "scase" in e}
    for i in bad[:6]:
        e = by_scase[i]
        c = e["case"]
        diag = core.coq_eval_strings("C06_diag", header + "From AV Require Import Schema.Show.\n",
                                     [f"show_js (fst (model_schema U{c.uidx} {G.opts_coq(c.opts)} {coq_bool(c.opts['all_refs'])} "
                                      f"{con_opt_coq(c.root)} {ty_coq(c.t)}))"])
        R.violation("deserialization_schema output differs from the model of the schema builder (Schema/Build.v)",
                    dict(c.to_json(), schema=e["doc"], error=e["err"], model_schema=diag[0] if diag else None,
                         all_refs=c.opts["all_refs"]), no_input=True)
    R.hist["schema_cases"] = len(scases)
    R.hist["schema_model_mismatches"] = len(bad)
    # 2. the validator model is the standard semantics (oracle: jsonschema)
    header2 = header + "\n".join(sdefs) + "\n"
    T2 = "js * defs * pyval * bool"
    bad2, errs = core.run_coq_shards("C06_valid", header2, vcases,
                                     "(fun c : " + T2 + " => let '(s, ds, d, v) := c in Bool.eqb (jvalid true ds fuel_s s d) v)",
                                     item_type=T2, shard=300)
    for k, e in errs:
        R.broken.append(f"coq evaluation failed (C06_valid shard {k}): {e[-300:]}")
    for i in bad2[:5]:
        R.broken.append("the validator model (Schema/Json.v jvalid) disagrees with jsonschema on " + json.dumps(vmeta[i])[:700])
    R.hist["validator_cases"] = len(vcases)
    R.hist["validator_mismatches"] = len(bad2)
    # 3. the theorem's statement evaluated on the cases: model schema vs specification of deserialization
    T3 = "univ * dopts * bool * option constraints * ty * pyval"
    bad3, errs = core.run_coq_shards("C06_agree", header, acases,
                                     "(fun c : " + T3 + " => let '(u, o, ar, root, t, d) := c in agree_case u o ar root t d)",
                                     item_type=T3, shard=250)
    for k, e in errs:
        R.broken.append(f"coq evaluation failed (C06_agree shard {k}): {e[-300:]}")
    for i in bad3[:5]:
        R.violation("the model's schema and the specification of deserialization disagree on this datum", ameta[i])
    R.hist["agreement_cases"] = len(acases)
    # how many of the cases lie within the hypotheses of the proved theorem (object-free fragment, no root schema)
    hyp = ("(fun c : " + T3 + " => let '(u, o, ar, root, t, d) := c in match root with Some _ => false | None => "
           "obj_free t && wf_con t && con_mergeable u o (refs_pred (refs_of u (fun _ => false) ar t)) fuel_s false t && keys_ok u t && in_domain d end)")
    outside, errs = core.run_coq_shards("C06_hyps", header + "From AV Require Import Schema.AgreeProofs.\n", acases, hyp, item_type=T3, shard=400)
    for k, e in errs:
        R.broken.append(f"coq evaluation failed (C06_hyps shard {k}): {e[-300:]}")
    R.hist["cases_within_the_proved_theorem"] = len(acases) - len(outside)
    # ... and within the theorem with classes (inline or referenced, recursive included): exactly the statement agree_case evaluates
    hyp2 = ("(fun c : " + T3 + " => let '(u, o, ar, root, t, d) := c in match root with Some _ => false | None => "
            "ref_hyps u o (refs_of u (fun _ => false) ar t) (seq 0 (List.length (u_classes u))) (seq 0 (List.length (u_enums u))) "
            "(Nat.pred fuel_s) fuel_s fuel_s fuel_s false t d end)")
    outside2, errs = core.run_coq_shards("C06_hyps_classes", header + "From AV Require Import Schema.AgreeProofs Schema.ObjAgree Schema.NestAgree Schema.RefAgree.\n",
                                         acases, hyp2, item_type=T3, shard=400)
    for k, e in errs:
        R.broken.append(f"coq evaluation failed (C06_hyps_classes shard {k}): {e[-300:]}")
    R.hist["cases_within_the_theorem_with_classes"] = len(acases) - len(outside2)
    probes.aggregate_probe(R, aspects=("schema",), n_classes=(30 if tier == "quick" else 200))
    probes.schema_edge_probe(R)
    return R.finish(
        rule="generated universes (dataclass / NamedTuple / TypedDict, aliases, defaults, constraints, dependent_required, "
             "ordering) x types of depth <= 3 (collections, tuples, mappings with constrained / literal / enum keys, unions, "
             "Optional, Literal, Enum, Annotated constraints, recursive classes) x additional_properties x aliaser x all_refs "
             "x per-call root schema; data = valid data, 1-2 mutations, atoms, plus the {absent, valid, invalid} field matrix; "
             "compared on the common domain (JSON values without integer-valued float / nan / inf / huge int; arrays with "
             "duplicates (JSON equality) excluded where a set-typed position is involved)")


def replay(data):
    r = data["replay"]
    for k in ("python_source", "python_type", "data", "opts", "observed_kind", "schema", "model_schema"):
        if k in r:
            print(f"--- {k}\n{r[k] if isinstance(r[k], str) else json.dumps(r[k])}")
