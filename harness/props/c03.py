"""C03 — deserialization is total, pure and crash-free on arbitrary input."""
import json
import math

from harness import core, pyrun, gen_deser as G
from harness.deser_run import Producer, C_MODEL
from harness.descr import data_real, Other

NEEDED = ["Deser/Model.v", "Deser/Run.v", "Deser/Unfold.v", "Deser/Loops.v", "Deser/Proofs.v", "Deser/NoCrash.v"]

WEIRD = [float("nan"), float("inf"), -float("inf"), 10 ** 400, -10 ** 400, 2 ** 53, True, False, "", " ", "1", "x"]


def malformed(rng, u, t, opts):
    d = G.gen_valid(rng, u, t, 3, opts)
    r = rng.random()
    if r < 0.25:
        return rng.choice(G.OTHERS + WEIRD)
    for _ in range(rng.choice([1, 1, 2, 3])):
        d = inject(rng, d)
    return d


def inject(rng, d):
    """replace one sub-datum by a non-JSON object or a weird number"""
    if isinstance(d, list) and d and rng.random() < 0.7:
        i = rng.randrange(len(d))
        return d[:i] + [inject(rng, d[i])] + d[i + 1:]
    if isinstance(d, dict) and d and rng.random() < 0.7:
        kk = rng.choice(list(d))
        return {k: (inject(rng, v) if k == kk else v) for k, v in d.items()}
    return rng.choice(G.OTHERS + WEIRD + [[Other("set")], {"k": Other("bytes")}])


def run(tier):
    R = core.Run("C03", tier)
    R.trusted = core.TRUSTED_COMMON + ["non-JSON objects are modelled by one opaque constructor (POther tag); in-place mutation "
                                       "and RecursionError cannot be exhibited by the functional model: observed on the "
                                       "implementation only"]
    R.coq_build(NEEDED)
    n = dict(quick=(120, 6, 7), thorough=(1500, 8, 10))[tier]
    P = Producer(R, *n, depth=3, make_data=malformed, matrix=1)

    def checks(U, c):
        if c.kind == "crash":
            tag = "recursion" if c.payload == "RecursionError" and depth_of(c.data) > 40 else "crash"
            if not R.known_match(f"{tag}:{c.payload}"):
                R.violation(f"deserialize raised {c.payload} (not ValidationError)", c.to_json())
            return
        if c.extra.get("mutated"):
            R.violation("deserialize modified its input", c.to_json())
            return
        if c.kind == "err":
            try:
                json.dumps(c.payload)
            except Exception as e:
                R.violation(f"ValidationError.errors is not JSON-serializable: {e}", c.to_json())

    P.hooks.append(checks)
    P.run()
    # mixed-type and non-string keys, deep nesting: implementation only (outside the model's string-keyed dicts)
    extra_probe(R)
    keys_and_numbers_probe(R)
    graph_probe(R, 60 if tier == 'quick' else 400)
    from harness import probes
    probes.discriminator_probe(R, {'mutation'})
    probes.stdlib_invalid_probe(R)
    bad_model = P.check("C03_model", C_MODEL)
    if bad_model and not R.violations:
        for c in bad_model[:5]:
            R.broken.append("correspondence model/implementation fails on " + repr(c.to_json())[:600]
                            + " model says: " + P.diagnose("C03_model", c))
    R.hist["model_mismatches"] = len(bad_model)
    return R.finish(
        rule="malformed stream: valid data with 1-3 injected non-JSON objects (tuple, bytes, set, object), NaN / inf, huge "
             "ints, bools, numeric strings; x coerce x additional_properties x fall_back_on_default x no_copy; plus probes "
             "with non-string / mixed-type keys, str/int/dict/list subclasses and nesting up to depth 300; random graphs of 1-6 "
             "mutually recursive classes (Optional / Optional[List] references) with valid and invalid nested data; outcome must be a "
             "value or ValidationError with JSON-serializable errors, input unchanged")


def depth_of(d, n=0):
    if n > 60:
        return n
    if isinstance(d, dict):
        return max([depth_of(v, n + 1) for v in d.values()] + [n + 1])
    if isinstance(d, (list, tuple, set, frozenset)):
        return max([depth_of(v, n + 1) for v in d] + [n + 1])
    return n


def graph_probe(R, n_graphs):
    """mutually recursive class graphs (any shape of cycles): compiling and running the deserializer terminates"""
    from harness.props.c20 import gen_graph
    from apischema import deserialize, ValidationError
    rng = R.rng
    for gi in range(n_graphs):
        g = gen_graph(rng) if gi else [[1, 2], [0, 1], [1]]
        # some classes are plain classes whose fields are given by set_object_fields (objects too: the recursion analysis must
        # see through them)
        plain = {i for i in range(len(g)) if rng.random() < 0.3}
        kinds = {(i, j): rng.choice(["opt", "list"]) for i, succ in enumerate(g) for j in range(len(succ))}
        L = ["from dataclasses import dataclass", "from typing import Optional, List",
             "from apischema.objects import ObjectField, set_object_fields", ""]
        for i, succ in enumerate(g):
            if i in plain:
                L += [f"class N{i}:", "    def __init__(self, **kwargs):", "        self.__dict__.update(kwargs)", ""]
                continue
            L += ["@dataclass", f"class N{i}:", "    x: int = 0"]
            for j, s2 in enumerate(succ):
                L.append(f"    f{j}: " + ("Optional['N%d'] = None" if kinds[i, j] == "opt" else "'Optional[List[N%d]]' = None") % s2)
            L.append("")
        for i in sorted(plain):
            fl = ['ObjectField("x", int, False, default=0)']
            for j, s2 in enumerate(g[i]):
                tp = f"Optional[N{s2}]" if kinds[i, j] == "opt" else f"Optional[List[N{s2}]]"
                fl.append(f'ObjectField("f{j}", {tp}, False, default=None)')
            L.append(f"set_object_fields(N{i}, [{', '.join(fl)}])")
        src = "\n".join(L) + "\n"
        mod = pyrun.exec_module(src)

        def data(k, depth, bad):
            d = {"x": "bad" if bad and depth == 0 else 1}
            if depth > 0:
                for j, s2 in enumerate(g[k]):
                    if rng.random() < 0.6:
                        sub = data(s2, depth - 1, bad)
                        d[f"f{j}"] = [sub] if kinds[k, j] == "list" else sub
            return d
        for root in range(len(g)):
            for bad in (False, True):
                d = data(root, 3, bad)
                R.count("graph_probe")
                try:
                    deserialize(mod.__dict__[f"N{root}"], d)
                except ValidationError as e:
                    if not bad:
                        R.violation(f"valid data rejected for the recursive class N{root}: {e.errors}", dict(source=src, data=d, root=root))
                except Exception as e:
                    R.violation(f"deserialize(N{root}, ...) raised {type(e).__name__} on recursive classes (graph {g})",
                                dict(source=src, data=d, root=root))
        pyrun.drop_module(mod)


def extra_probe(R):
    """probes the model cannot express (non-string keys, subclasses, deep nesting)"""
    from harness import pyrun
    pyrun.ensure_repo_on_path()
    from typing import Any, Dict, List, Optional, Set, Tuple, Union, Literal
    from dataclasses import dataclass
    from apischema import deserialize, ValidationError

    class S(str):
        pass

    class I(int):
        pass

    class D(dict):
        pass

    class L(list):
        pass

    @dataclass
    class Node:
        v: int = 0
        next: Optional["Node"] = None

    Node.__module__ = __name__
    globals()["Node"] = Node
    probes = [
        (Dict[str, int], {1: "a", "b": "c"}), (Dict[str, int], {None: 1, (1, 2): 2}), (Dict[str, int], {1: 1, 2.5: 2}),
        (Dict[int, int], {"1": 1, 2: 2}), (List[int], L([1, "a"])), (int, I(3)), (str, S("x")), (Dict[str, int], D(a=1)),
        (Literal["a", 1], S("a")), (Literal[1, 2], I(1)), (Set[int], [1, [2]]), (Set[Any], [[1]]), (Set[Any], [{"a": 1}]),
        (List[Any], [{1: 2, "a": 3}]), (Union[int, str], S("x")), (Tuple[int, str], (1, "a")),
        (Node, {"v": "x", 1: 2}), (Node, {"next": {"next": {"v": None}}}),
    ]
    for coerce in (False, True):
        for tp, d in probes:
            R.count("probe")
            try:
                deserialize(tp, d, coerce=coerce)
            except ValidationError as e:
                try:
                    json.dumps(e.errors)
                    e.errors
                except Exception as e2:
                    R.violation(f"errors not computable for {tp} <- {d!r}: {type(e2).__name__}: {e2}",
                                dict(type=str(tp), data=repr(d), coerce=coerce))
            except Exception as e:
                tag = f"probe:{type(e).__name__}:{getattr(tp, '__name__', str(tp))}"
                if not R.known_match(tag):
                    R.violation(f"deserialize({tp}, {d!r}, coerce={coerce}) raised {type(e).__name__}: {e}",
                                dict(type=str(tp), data=repr(d), coerce=coerce))
    # deep nesting
    for depth in (50, 150, 300):
        d = None
        for _ in range(depth):
            d = {"v": 1, "next": d}
        R.count("deep_probe")
        try:
            deserialize(Node, d)
        except RecursionError:
            if not R.known_match("recursion:RecursionError"):
                R.violation(f"RecursionError at nesting depth {depth}", dict(depth=depth))
        d2 = 1
        for _ in range(depth):
            d2 = [d2]
        try:
            deserialize(Any, d2)
            deserialize(List[Any], d2)
        except RecursionError:
            if not R.known_match("recursion:RecursionError"):
                R.violation(f"RecursionError at list nesting depth {depth}", dict(depth=depth))


KEYS_SRC = """
import re
from dataclasses import dataclass, field
from typing import Any, Dict, List, Mapping, Optional, Union, TypedDict, Annotated
from apischema import properties, schema, discriminator, alias
from apischema.metadata import flatten

@dataclass
class Plain:
    x: int = 0
    y: str = ""

@dataclass
class Rich:
    x: float = 0.0
    al: int = field(default=0, metadata=alias("a-l"))

@dataclass
class Pat:
    x: int = 0
    pp: Dict[str, int] = field(default_factory=dict, metadata=properties(pattern=re.compile("^a")))

@dataclass
class Pat2:
    x: int = 0
    pp: Dict[str, int] = field(default_factory=dict, metadata=properties(pattern=re.compile("^a")))
    rest: Dict[str, Any] = field(default_factory=dict, metadata=properties)

@dataclass
class Add:
    x: int = 0
    rest: Dict[str, int] = field(default_factory=dict, metadata=properties)

@dataclass
class Flat:
    p: Plain = field(default_factory=Plain, metadata=flatten)
    z: int = 0

class TD(TypedDict, total=False):
    x: int

@dataclass
class Cat:
    name: str = ""

@dataclass
class Dog:
    name: str = ""
    f: float = 0.0

@dataclass
class Nest:
    inner: Plain = field(default_factory=Plain)
    items: List[Rich] = field(default_factory=list)

TYPES = [Plain, Rich, Pat, Pat2, Add, Flat, TD, Nest, Dict[str, int], Dict[int, int], Mapping[str, Any], Dict[str, Plain],
         Annotated[Union[Cat, Dog], discriminator("kind")], List[Plain], Optional[Pat], Any]
NUMS = [Annotated[int, schema(mult_of=0.5)], Annotated[int, schema(mult_of=3)], Annotated[float, schema(mult_of=0.5)],
        Annotated[float, schema(mult_of=3)], Annotated[int, schema(min=0, max=10)], Annotated[float, schema(exc_min=0.5, exc_max=1e308)],
        Annotated[Union[int, str], schema(mult_of=2, min_len=1)], List[Annotated[int, schema(mult_of=0.25)]], int, float,
        Optional[Annotated[int, schema(mult_of=7)]]]
"""


def keys_and_numbers_probe(R):
    """non-JSON keys (bytes, None, float, NaN, tuple, bool, frozenset, arbitrary objects) injected into objects, mappings and
    discriminated unions, at the root and nested; non-JSON numbers against every numeric constraint"""
    from apischema import deserialize, ValidationError
    import copy
    mod = pyrun.exec_module(KEYS_SRC)

    class Obj:
        def __repr__(self):
            return "<Obj>"

        def __hash__(self):
            return 7
    keys = [b"zz", b"a", None, 1.5, float("nan"), (1, 2), (b"a", None), True, 0, 10 ** 30, frozenset([1]), Obj(), "", "a1", "kind"]
    bases = [{}, {"x": 1}, {"x": "bad"}, {"kind": "Cat", "name": "n"}, {"kind": "Dog", "name": "n", "f": 1},
             {"inner": {"x": 1}, "items": [{"x": 1}]}, {"a1": 1, "x": 2}, {"k": {"x": 1}}]

    def variants(base, key):
        yield {**base, key: 1}
        yield {key: 1, **base}
        yield {**base, key: {"x": 1}}
        for k, v in base.items():
            if isinstance(v, dict):
                yield {**base, k: {**v, key: 1}}
            if isinstance(v, list) and v and isinstance(v[0], dict):
                yield {**base, k: [{**v[0], key: None}]}
        yield [dict(base, **{})] + [{key: 0}]

    def attempt(tp, d, kw):
        R.count("key_probe")
        before = copy.deepcopy(d)
        try:
            deserialize(tp, d, **kw)
        except ValidationError as e:
            try:
                json.dumps(e.errors)
                str(e)
            except Exception as e2:
                R.violation(f"errors not computable / JSON-serializable for {tp} <- {d!r} {kw}: {type(e2).__name__}: {e2}",
                            dict(type=str(tp), data=repr(d), options=kw))
        except RecursionError:
            raise
        except Exception as e:
            R.violation(f"deserialize({tp}, {d!r}, {kw}) raised {type(e).__name__}: {e}",
                        dict(type=str(tp), data=repr(d), options=kw))
        if repr(before) != repr(d):
            R.violation(f"deserialize({tp}, ...) modified its input {before!r} -> {d!r}", dict(type=str(tp), data=repr(before), options=kw))

    optsets = [dict(), dict(coerce=True), dict(additional_properties=True), dict(fall_back_on_default=True),
               dict(coerce=True, additional_properties=True, fall_back_on_default=True)]
    try:
        for tp in mod.TYPES:
            for base in bases:
                for key in keys:
                    for d in variants(base, key):
                        for kw in optsets:
                            attempt(tp, d, kw)
                            if len(R.violations) > 5:
                                return
        nums = [10 ** 400, -10 ** 400, 10 ** 400 + 1, 2 ** 53 + 1, float("nan"), float("inf"), -float("inf"), True, False, 0, -0.0,
                1e308, 5e-324, "3", "", None, [10 ** 400], [float("nan"), 1], b"1", 3.0, 10 ** 22, 1e22]
        for tp in mod.NUMS:
            for d in nums:
                for kw in (dict(), dict(coerce=True)):
                    attempt(tp, d, kw)
    finally:
        pyrun.drop_module(mod)


def replay(data):
    print(data)
