"""C10 — validators run exactly when their inputs are valid; all errors are merged."""
import itertools

from harness import core, pyrun
from harness.core import coq_str, coq_list, coq_nat

HEADER = """From Coq Require Import List String Bool Arith.
From AV Require Import Small.Validators Core.Util.
Import ListNotations.
Open Scope string_scope.
Definition nats_eqb := list_eqb Nat.eqb.
"""
CASE_TYPE = "list string * list string * list vdef * list nat * list nat"
CHECKER = ("(fun c : " + CASE_TYPE + " => let '(provided, invalid, vs, failing, expected) := c in "
           "match executed (fun v => existsb (Nat.eqb (v_id v)) failing) provided invalid vs with "
           "| Some ex => nats_eqb (map v_id ex) expected | None => false end)")

NAMES = ["a", "b", "c", "d"]


def gen_class(rng):
    nf = rng.randint(1, 4)
    nb = rng.choice([0, 0, 1]) if nf > 1 else 0          # fields (and validators) declared in a base class
    fields = []
    for i, n in enumerate(NAMES[:nf]):
        fields.append(dict(name=n, required=rng.random() < 0.3, alias=(n.upper() + "x") if rng.random() < 0.3 else n,
                           base=i < nb))
    fields.sort(key=lambda f: (not f["base"], not f["required"]))
    if any(f["required"] for f in fields if not f["base"]) and any(not f["required"] for f in fields if f["base"]):
        for f in fields:
            f["required"] = False if not f["base"] else f["required"]
    names = [f["name"] for f in fields]
    nv = rng.randint(1, 4)
    vals = []
    for k in range(nv):
        deps = rng.sample(names, rng.randint(1, min(3, nf)))
        via_helper = rng.random() < 0.25
        fld = rng.choice(names) if rng.random() < 0.3 else None
        disc = None
        r = rng.random()
        if r < 0.3:
            disc = rng.sample(names, rng.randint(1, min(2, nf)))
        style = rng.choice(["raise", "yield", "yield_path", "yield_many"])
        in_base = nb > 0 and rng.random() < 0.3 and all(d in names[:nb] for d in deps) and (fld is None or fld in names[:nb]) \
            and (disc is None or all(d in names[:nb] for d in disc))
        helper_in_base = via_helper and not in_base and nb > 0 and all(d in names[:nb] for d in deps) and rng.random() < 0.6
        vals.append(dict(id=k, deps=sorted(set(deps)), helper=via_helper, field=fld, discard=disc, style=style, base=in_base,
                         helper_in_base=helper_in_base))
    # a quarter of the classes without base are generic and deserialized through a specialisation (A[int])
    return dict(fields=fields, validators=vals, nb=nb, generic=(nb == 0 and rng.random() < 0.25))


def class_src(c):
    L = ["from dataclasses import dataclass, field", "from typing import Generic, TypeVar",
         "from apischema import validator, ValidationError, alias",
         "LOG = []", "FAIL = set()", "CONSTRUCTED = []", "T = TypeVar('T')", ""]

    def emit_class(name, base, fields, validators, extra_helpers=()):
        L.append("@dataclass")
        gen = c.get("generic") and name == "A" and not base
        L.append(f"class {name}({base}):" if base else (f"class {name}(Generic[T]):" if gen else f"class {name}:"))
        for f in fields:
            md = f"metadata=alias({f['alias']!r})" if f["alias"] != f["name"] else ""
            ty = "T" if gen else "int"
            if f["required"]:
                L.append(f"    {f['name']}: {ty}" + (f" = field({md})" if md else " = field()"))
            else:
                L.append(f"    {f['name']}: {ty} = field(default=0" + (", " + md if md else "") + ")")
        for v in validators:
            args = []
            own = {f["name"] for f in fields}
            ref = (lambda n: n if n in own else repr(n))    # a field of the base class is referred to by its name
            if v["field"]:
                args.append(ref(v["field"]))
            if v["discard"] is not None:
                args.append("discard=[" + ", ".join(ref(d) for d in v["discard"]) + "]")
            L.append(f"    @validator({', '.join(args)})" if args else "    @validator")
            L.append(f"    def v{v['id']}(self):")
            L.append(f"        LOG.append({v['id']})")
            if v["helper"]:
                L.append(f"        self.helper{v['id']}()")
            else:
                for d in v["deps"]:
                    L.append(f"        _ = self.{d}")
            if v["style"] == "raise":
                L.append(f"        if {v['id']} in FAIL: raise ValidationError('v{v['id']} failed')")
            elif v["style"] == "yield":
                L.append(f"        if {v['id']} in FAIL: yield 'v{v['id']} failed'")
                L.append("        if False: yield 'never'")
            elif v["style"] == "yield_many":     # several errors of one run, sharing a path or its first component
                L.append(f"        if {v['id']} in FAIL:")
                L.append(f"            yield ('sub', 1), 'v{v['id']} failed'")
                L.append(f"            yield ('sub', 1), 'v{v['id']} failed b'")
                L.append(f"            yield ('sub', 2), 'v{v['id']} failed c'")
                L.append(f"            yield 'v{v['id']} failed d'")
                L.append("        if False: yield 'never'")
            else:
                L.append(f"        if {v['id']} in FAIL: yield ('sub', 1), 'v{v['id']} failed'")
                L.append("        if False: yield 'never'")
            if v["helper"] and not v.get("helper_in_base"):
                L.append(f"    def helper{v['id']}(self):")
                L.append("        return (" + ", ".join(f"self.{d}" for d in v["deps"]) + ",)")
        for v in extra_helpers:
            L.append(f"    def helper{v['id']}(self):")
            L.append("        return (" + ", ".join(f"self.{d}" for d in v["deps"]) + ",)")
        if not fields and not validators:
            L.append("    pass")
        L.append("    def __post_init__(self):")
        L.append("        CONSTRUCTED.append(1)")
        L.append("")
    bf = [f for f in c["fields"] if f["base"]]
    of = [f for f in c["fields"] if not f["base"]]
    bv = [v for v in c["validators"] if v["base"]]
    ov = [v for v in c["validators"] if not v["base"]]
    if bf:
        emit_class("Base", None, bf, bv, [v for v in ov if v.get("helper_in_base")])
        emit_class("A", "Base", of, ov)
    else:
        emit_class("A", None, of, bv + ov)
    return "\n".join(L)


def validators_in_order(c):
    """get_validators: classes of the MRO in order, i.e. the subclass' validators first"""
    if any(f["base"] for f in c["fields"]):
        return [v for v in c["validators"] if not v["base"]] + [v for v in c["validators"] if v["base"]]
    return [v for v in c["validators"] if v["base"]] + [v for v in c["validators"] if not v["base"]]


def run(tier):
    R = core.Run("C10", tier)
    R.trusted = core.TRUSTED_COMMON + ["model of the validator gate of ObjectMethod.deserialize and of validate() "
                                       "(coq/Small/Validators.v); dependency discovery (AST walk of the validator source) is an "
                                       "input of the model: the harness declares the attributes each generated validator reads"]
    R.coq_build(["Small/Validators.v", "Small/ValidatorsProofs.v"])
    pyrun.ensure_repo_on_path()
    from apischema import deserialize, ValidationError
    rng = R.rng
    ncls, per = dict(quick=(120, 14), thorough=(1200, 40))[tier]
    items, meta = [], []
    for ci in range(ncls):
        c = gen_class(rng)
        src = class_src(c)
        try:
            mod = pyrun.exec_module(src)
        except Exception as e:
            R.count("class_rejected:" + type(e).__name__)
            continue
        A = mod.A[int] if c.get("generic") else mod.A
        fields = c["fields"]
        vs = validators_in_order(c)
        states = list(itertools.product("avi", repeat=len(fields)))
        for st in (states if len(states) <= per else rng.sample(states, per)):
            failing = [v["id"] for v in vs if rng.random() < 0.4]
            data = {}
            prefixed = rng.random() < 0.3          # a dynamic aliaser: keys and error locations go through it
            al = (lambda x: "k_" + x) if prefixed else (lambda x: x)
            kw = {"aliaser": al} if prefixed else {}
            for f, s in zip(fields, st):
                if s == "v":
                    data[al(f["alias"])] = rng.choice([1, 2, 50])
                elif s == "i":
                    data[al(f["alias"])] = "bad"
            provided = [f["name"] for f, s in zip(fields, st) if s == "v"]
            invalid = [f["name"] for f, s in zip(fields, st) if s == "i" or (s == "a" and f["required"])]
            mod.LOG.clear(); mod.CONSTRUCTED.clear(); mod.FAIL.clear(); mod.FAIL.update(failing)
            try:
                obj = deserialize(A, data, **kw)
                outcome = ("ok", None)
            except ValidationError as e:
                outcome = ("err", e.errors)
            except RecursionError:
                R.violation("validation did not terminate (RecursionError)", dict(source=src, data=data, failing=failing, prefixed=prefixed))
                continue
            except Exception as e:
                R.violation(f"deserialize raised {type(e).__name__}: {e}", dict(source=src, data=data, failing=failing))
                continue
            log = list(mod.LOG)
            R.note_case((len(fields), len(vs), st, tuple(sorted(failing)), outcome[0]),
                        sample=dict(source=src, data=data, failing=failing, executed=log, outcome=outcome))
            R.count("outcome:" + outcome[0])
            # model-free checks
            should_fail = bool(invalid) or any(i in failing for i in log)
            if should_fail != (outcome[0] == "err"):
                R.violation(f"outcome {outcome[0]} but invalid fields {invalid} / failing executed validators "
                            f"{[i for i in log if i in failing]}", dict(source=src, data=data, failing=failing, executed=log))
                continue
            # with structural errors the validators run on a mock: the class is never instantiated; without any error
            # exactly one instance is built (with validator errors only, the instance validated is discarded)
            if (invalid and mod.CONSTRUCTED) or (outcome[0] == "ok" and len(mod.CONSTRUCTED) != 1):
                R.violation("the object was constructed although there are structural errors (or not constructed without error)",
                            dict(source=src, data=data, failing=failing, executed=log))
                continue
            if outcome[0] == "err":
                msgs = [e["err"] for e in outcome[1]]
                for i in log:
                    if i in failing and f"v{i} failed" not in msgs:
                        R.violation(f"the error of validator v{i} is missing from the merged errors", dict(source=src, data=data, failing=failing, errors=outcome[1]))
                for v in vs:
                    if v["id"] in log and v["id"] in failing:
                        # every error of the run, at its own path (under the field alias for a field validator)
                        pre = [al(next(f["alias"] for f in fields if f["name"] == v["field"]))] if v["field"] else []
                        want = {"raise": [([], "")], "yield": [([], "")], "yield_path": [(["sub", 1], "")],
                                "yield_many": [(["sub", 1], ""), (["sub", 1], " b"), (["sub", 2], " c"), ([], " d")]}[v["style"]]
                        for path, suffix in want:
                            ent = dict(loc=pre + path, err=f"v{v['id']} failed{suffix}")
                            if ent not in outcome[1]:
                                R.violation(f"the error {ent} of validator v{v['id']} is missing from the merged errors",
                                            dict(source=src, data=data, failing=failing, errors=outcome[1]))
                                break
                    if v["id"] in log and v["id"] in failing and v["field"]:
                        fal = al(next(f["alias"] for f in fields if f["name"] == v["field"]))
                        locs = [e["loc"] for e in outcome[1] if e["err"] == f"v{v['id']} failed"]
                        if not all(l[:1] == [fal] for l in locs):
                            R.violation(f"field validator v{v['id']} error not placed under the field alias {fal!r}: {locs}",
                                        dict(source=src, data=data, failing=failing, errors=outcome[1]))
            vcoq = coq_list([f"(mkV {coq_nat(v['id'])} {coq_list(map(coq_str, v['deps']))} "
                             f"{coq_list(map(coq_str, v['discard'] if v['discard'] is not None else ([v['field']] if v['field'] else [])))})"
                             for v in vs])
            items.append(f"({coq_list(map(coq_str, provided))}, {coq_list(map(coq_str, invalid))}, {vcoq}, "
                         f"{coq_list(map(coq_nat, failing))}, {coq_list(map(coq_nat, log))})")
            meta.append(dict(source=src, data=data, failing=failing, executed=log, provided=provided, invalid=invalid))
        pyrun.drop_module(mod)
    bad, errs = core.run_coq_shards("C10", HEADER, items, CHECKER, item_type=CASE_TYPE)
    for k, e in errs:
        R.broken.append(f"coq evaluation failed (shard {k}): {e[-300:]}")
    for i in bad[:10]:
        R.violation(f"validators executed {meta[i]['executed']} differ from the documented set/order computed by the model", meta[i])
    return R.finish(
        rule="dataclasses with 1-4 int fields (required / defaulted / aliased, possibly split over a base class) and 1-4 "
             "validators with enumerated dependency sets (read directly or through a helper method), field= / discard= "
             "declarations, raise / yield / yield-with-path styles, declared in the class or its base; every assignment of "
             "{absent, valid, invalid} to the fields (sampled above 14 per class) x random failing sets; the invocation log, "
             "the merged errors and the construction of the object are observed through the validators' own side effects")


def replay(data):
    r = data["replay"]
    print(r.get("source"))
    print({k: v for k, v in r.items() if k != "source"})
