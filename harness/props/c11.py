"""C11 — a field has one external name across every view."""
import json
import re

from harness import core, pyrun
from harness.core import coq_str, coq_list, coq_bool, coq_opt

HEADER = """From Coq Require Import List String Bool Arith.
From AV Require Import Small.Names Core.Util.
Import ListNotations.
Open Scope string_scope.
"""
NAMES = ["a", "b_c", "camelCase", "class_", "x_y1", "id", "from_", "d", "snake_case_name", "_private"]
ALIASES = [None, None, None, "A", "snake_alias", "camelAlias", "$ref", "$id", "class", "from", "x-y", "with_1digit"]
DYN = {"id": ("lambda s: s", "al_id"), "camel": ("to_camel_case", "camel"), "custom": ("(lambda s: s + '_x')", "al_custom")}
CA = {"none": (None, "None"), "upper": ("str.upper", "(Some upper)"), "prefix": ("(lambda s: 'p_' + s)", "(Some al_prefix)")}
GQL_NAME = re.compile(r"^[_A-Za-z][_0-9A-Za-z]*$")


def gen_fields(rng, n):
    names = rng.sample(NAMES, n)
    fs = []
    for nm in names:
        fs.append(dict(name=nm, alias=rng.choice(ALIASES), override=rng.random() < 0.75, required=rng.random() < 0.5))
    # aliases must stay distinct
    seen = set()
    for f in fs:
        if f["alias"] in seen:
            f["alias"] = None
        if f["alias"]:
            seen.add(f["alias"])
    fs.sort(key=lambda f: not f["required"])
    return fs


def gen_case(rng):
    outer = gen_fields(rng, rng.randint(1, 4))
    inner = gen_fields(rng, rng.randint(1, 2))
    c = dict(outer=outer, inner=inner, ca=rng.choice(list(CA)), ca_inner=rng.choice(list(CA)), dyn=rng.choice(list(DYN)),
             via=rng.choice(["param", "param", "settings", "camel_case"]), nested=rng.choice([None, "nested", "opt"]),
             depreq=None, validator=rng.random() < 0.5)
    if c["via"] == "camel_case":
        c["dyn"] = "camel"
    names = [f["name"] for f in outer]
    if len(names) >= 2 and rng.random() < 0.5:
        a, b = rng.sample(names, 2)
        c["depreq"] = (a, [b])
    return c


def field_src(f):
    md = []
    if f["alias"] is not None:
        md.append(f"alias({f['alias']!r}" + ("" if f["override"] else ", override=False") + ")")
    elif not f["override"]:
        md.append("alias(override=False)")
    mds = " | ".join(md)
    if f["required"]:
        return f"    {f['name']}: int" + (f" = field(metadata={mds})" if md else "")
    return f"    {f['name']}: int = field(default=0" + (f", metadata={mds}" if md else "") + ")"


def case_src(c):
    L = ["from dataclasses import dataclass, field", "from typing import Optional",
         "from apischema import alias, dependent_required, validator, ValidationError", "from apischema.objects import get_alias",
         "from apischema.utils import to_camel_case", ""]
    if CA[c["ca_inner"]][0]:
        L.append(f"@alias({CA[c['ca_inner']][0]})")
    L += ["@dataclass", "class Inner:"] + [field_src(f) for f in c["inner"]] + [""]
    if CA[c["ca"]][0]:
        L.append(f"@alias({CA[c['ca']][0]})")
    L += ["@dataclass", "class Outer:"]
    req = [f for f in c["outer"] if f["required"]]
    opt = [f for f in c["outer"] if not f["required"]]
    L += [field_src(f) for f in req]
    if c["nested"] == "nested":
        L.append("    nested_obj: Inner = field(default_factory=lambda: Inner(" +
                 ", ".join(f"{f['name']}=1" for f in c["inner"]) + "))")
    elif c["nested"] == "opt":
        L.append("    nested_obj: Optional[Inner] = None")
    L += [field_src(f) for f in opt]
    if c["validator"]:
        first = c["outer"][0]["name"]
        L += ["    @validator", "    def check(self):", f"        if self.{first} == 99:",
              f"            yield (get_alias(self).{first}, 'bad value')"]
    if c["depreq"]:
        L.append(f"dependent_required({{{c['depreq'][0]!r}: {c['depreq'][1]!r}}}, owner=Outer)")
    L.append(f"DYN = {DYN[c['dyn']][0]}")
    return "\n".join(L)


def nf_coq(f):
    return f"(mkNF {coq_str(f['name'])} {coq_opt(coq_str(f['alias'])) if f['alias'] is not None else 'None'} " \
           f"{coq_bool(f['override'])} {coq_bool(f['required'])})"


def run(tier):
    R = core.Run("C11", tier)
    R.trusted = core.TRUSTED_COMMON + [
        "Small/Names.v models alias metadata, the class aliaser with override=False exemptions and the dynamic aliaser "
        "(identity, to_camel_case, a custom suffix); the views are observed on the implementation and compared with it",
        "GraphQL names are compared only when every expected name is a valid GraphQL name"]
    R.coq_build(["Small/Names.v", "Small/NamesProofs.v"])
    pyrun.ensure_repo_on_path()
    import apischema.cache
    from apischema import deserialize, serialize, ValidationError, settings
    from apischema.json_schema import deserialization_schema, serialization_schema
    from apischema.utils import to_camel_case
    rng = R.rng
    items, meta = [], []
    n = 250 if tier == "quick" else 2500
    for ci in range(n):
        c = gen_case(rng)
        src = case_src(c)
        try:
            mod = pyrun.exec_module(src)
        except Exception as e:
            R.count("class_rejected:" + type(e).__name__)
            continue
        apischema.cache.reset()
        dyn = mod.DYN
        kw = {}
        old = settings.aliaser
        if c["via"] == "param":
            kw["aliaser"] = dyn
        elif c["via"] == "settings":
            settings.aliaser = dyn
        else:
            settings.camel_case = True
        info = dict(source=src, case=c)
        try:
            obs = observe(R, mod, c, kw, info)
        finally:
            settings.aliaser = old
            apischema.cache.reset()
            pyrun.drop_module(mod)
        if obs is None:
            continue
        R.note_case((c["ca"], c["dyn"], c["via"], c["nested"], len(c["outer"]), tuple(sorted(obs))),
                    sample=dict(source=src, views={k: v for k, v in obs.items()}))
        R.count("via:" + c["via"]); R.count("class_aliaser:" + c["ca"]); R.count("dynamic:" + c["dyn"])
        views = ["deser_keys", "ser_keys", "dprops", "sprops", "drequired", "err_locs", "inner_keys", "inner_err"]
        # nested_obj is an extra plain field of Outer, without alias
        outer = list(c["outer"])
        if c["nested"]:
            outer.append(dict(name="nested_obj", alias=None, override=True, required=False))
        fcoq = coq_list(map(nf_coq, outer))
        icoq = coq_list(map(nf_coq, c["inner"]))
        ocoq = "[" + "; ".join(f"({coq_str(v)}, {coq_list(map(coq_str, obs.get(v, [])))})" for v in views if v in obs) + "]"
        dr = "None" if not c["depreq"] or "depreq" not in obs else \
            f"(Some ({coq_str(c['depreq'][0])}, {coq_list(map(coq_str, c['depreq'][1]))}, {coq_list(coq_list(map(coq_str, x)) for x in obs['depreq'])}))"
        val = "None" if "validator_loc" not in obs else f"(Some ({coq_str(c['outer'][0]['name'])}, {coq_str(obs['validator_loc'])}))"
        gql = "None" if "gql" not in obs else f"(Some {coq_list(map(coq_str, obs['gql']))})"
        items.append(f"({DYN[c['dyn']][1]}, {CA[c['ca']][1]}, {CA[c['ca_inner']][1]}, {fcoq}, {icoq}, {ocoq}, {dr}, {val}, {gql})")
        meta.append(dict(info, views=obs))
    extra_probe(R)
    from harness import probes
    probes.flatten_probe(R)
    T = ("(string -> string) * option (string -> string) * option (string -> string) * list nfield * list nfield * "
         "list (string * list string) * option (string * list string * list (list string)) * option (string * string) * "
         "option (list string)")
    bad, errs = core.run_coq_shards("C11", HEADER, items, "(fun c : " + T + " => names_case c)", item_type=T, shard=120)
    for k, e in errs:
        R.broken.append(f"coq evaluation failed (shard {k}): {e[-300:]}")
    for i in bad[:8]:
        R.violation("a view does not use the external name aliaser(class_aliaser(alias or name)) computed by the model",
                    meta[i])
    return R.finish(
        rule="dataclasses with 1-4 int fields named from a pool (snake_case, camelCase, trailing-underscore keywords, leading "
             "underscore) x alias in {none, plain, snake, camel, $-prefixed, keyword, dashed} x override in {True, False} x "
             "class aliaser in {none, upper, prefix} x dynamic aliaser in {identity, camelCase, custom} given per call, through "
             "settings.aliaser or settings.camel_case x nested / optional nested object with its own class aliaser x "
             "dependent_required x a validator yielding an aliased location; views: keys consumed by deserialize, keys produced "
             "by serialize, properties / required / dependentRequired of both schemas, error locations, GraphQL field names")


def observe(R, mod, c, kw, info):
    from apischema import deserialize, serialize, ValidationError
    from apischema.json_schema import deserialization_schema, serialization_schema
    Outer, Inner = mod.Outer, mod.Inner
    obs = {}
    try:
        inner_obj = Inner(**{f["name"]: 1 for f in c["inner"]})
        args = {f["name"]: 1 for f in c["outer"]}
        if c["nested"]:
            args["nested_obj"] = inner_obj
        obj = Outer(**args)
        out = serialize(Outer, obj, **kw)
        obs["ser_keys"] = list(out)
        n_outer = len(c["outer"]) + (1 if c["nested"] else 0)
        if len(out) != n_outer or (c["nested"] and any(isinstance(v, dict) and len(v) != len(c["inner"]) for v in out.values())):
            R.count("excluded:aliasers_make_two_fields_collide")
            return None
        if c["nested"]:
            key = [k for k, v in out.items() if isinstance(v, dict)]
            if len(key) != 1:
                R.violation("serialize: nested object not found under one key", dict(info, output=out))
                return None
            obs["inner_keys"] = list(out[key[0]])
        # what serialize produces is what deserialize consumes
        back = deserialize(Outer, out, **kw)
        if back != obj:
            R.violation("deserialize(serialize(obj)) differs: the keys produced are not the keys consumed", dict(info, output=out))
            return None
        obs["deser_keys"] = list(out)
        # the python name is not accepted in place of the external name
        for f in c["outer"]:
            ext = None
        ds = json.loads(json.dumps(deserialization_schema(Outer, with_schema=False, all_refs=False, **kw)))
        ss = json.loads(json.dumps(serialization_schema(Outer, with_schema=False, all_refs=False, **kw)))

        def root(doc):
            while "$ref" in doc:
                doc = {**doc["$defs"][doc["$ref"].rsplit("/", 1)[1]], "$defs": doc["$defs"]}
            return doc
        d0, s0 = root(ds), root(ss)
        obs["dprops"] = list(d0.get("properties", {}))
        obs["sprops"] = list(s0.get("properties", {}))
        obs["drequired"] = list(d0.get("required", []))
        if c["depreq"]:
            obs["depreq"] = [[k] + v for k, v in d0.get("dependentRequired", {}).items()]
            sdr = [[k] + v for k, v in s0.get("dependentRequired", {}).items()]
            for row in sdr:
                if row not in obs["depreq"]:
                    R.violation("serialization_schema dependentRequired uses names absent from the deserialization schema",
                                dict(info, schema=ss))
        # error locations: every field invalid
        bad = {k: ("x" if not isinstance(v, dict) else {kk: "x" for kk in v}) for k, v in out.items()}
        try:
            deserialize(Outer, bad, **kw)
            R.violation("invalid data accepted", dict(info, data=bad))
            return None
        except ValidationError as e:
            locs = [err["loc"] for err in e.errors]
        obs["err_locs"] = sorted({l[0] for l in locs if len(l) in (1, 2)})
        if c["nested"]:
            obs["inner_err"] = [l[1] for l in locs if len(l) == 2]
            outer_of_inner = {l[0] for l in locs if len(l) == 2}
            if outer_of_inner and outer_of_inner != {[k for k, v in out.items() if isinstance(v, dict)][0]}:
                R.violation(f"nested error locations {sorted(outer_of_inner)} do not start with the key of the nested object",
                            dict(info, errors=e.errors))
        if c["validator"]:
            vdata = dict(out)
            pos = 0 if c["outer"][0]["required"] or not c["nested"] else 1      # declaration order: required, nested_obj, defaulted
            first_key = list(out)[pos]
            vdata[first_key] = 99
            try:
                deserialize(Outer, vdata, **kw)
                R.violation("validator did not run", dict(info, data=vdata))
            except ValidationError as e:
                vl = [err["loc"] for err in e.errors if err["err"] == "bad value"]
                if len(vl) != 1 or len(vl[0]) != 1:
                    R.violation(f"validator error location is {vl}", dict(info, errors=e.errors))
                else:
                    obs["validator_loc"] = vl[0][0]
        obs.update(graphql_view(R, mod, c, kw, info, obs))
    except ValidationError as e:
        R.violation(f"ValidationError while observing the views: {e.errors[:2]}", info)
        return None
    except Exception as e:
        R.violation(f"{type(e).__name__} while observing the views: {e}", info)
        return None
    return obs


def graphql_view(R, mod, c, kw, info, obs):
    if not all(GQL_NAME.match(n) for n in obs["ser_keys"] + obs.get("inner_keys", [])):
        R.count("graphql:skipped_invalid_names")
        return {}
    try:
        import graphql
        from apischema.graphql import graphql_schema
    except Exception:
        R.count("graphql:unavailable")
        return {}
    Outer = mod.Outer

    def get_outer() -> Outer:
        return None
    gkw = {}
    if "aliaser" in kw:
        gkw["aliaser"] = kw["aliaser"]
    else:
        from apischema import settings
        gkw["aliaser"] = settings.aliaser
    try:
        schema = graphql_schema(query=[get_outer], **gkw)
    except Exception as e:
        R.violation(f"graphql_schema raised {type(e).__name__}: {e}", info)
        return {}
    tp = schema.type_map.get("Outer")
    if tp is None:
        R.violation("GraphQL type Outer not found", info)
        return {}
    R.count("graphql:compared")
    return {"gql": list(tp.fields)}


EXTRA_SRC = '''
from dataclasses import dataclass, field
from typing import Generic, List, Optional, TypeVar
from apischema import alias, validator
from apischema.objects import get_alias

T = TypeVar("T")

@alias(lambda s: "p_" + s)
@dataclass
class Page(Generic[T]):
    page_items: List[T]
    page_size: int = 10
    raw_name: int = field(default=0, metadata=alias(override=False))

    @validator
    def check(self):
        if self.page_size == 99:
            yield (get_alias(self).page_size, "bad size")

@dataclass
class Book:
    pages: Page[int]
    first_field: int = 0
    second_field: int = field(default=0)

    @validator(discard="first_field")
    def v1(self):
        if self.first_field == 99:
            yield (get_alias(self).first_field, "v1 bad")

    @validator
    def v2(self):
        if self.second_field == 99:
            yield (get_alias(self).second_field, "v2 bad")

    @validator(second_field)
    def v3(self):
        if self.second_field == 98:
            yield "v3 bad"
'''


def extra_probe(R):
    """generic class with a class aliaser used parametrized; validators after a discarding failure"""
    import apischema.cache
    from apischema import deserialize, serialize, ValidationError
    from apischema.json_schema import deserialization_schema, serialization_schema
    from apischema.utils import to_camel_case
    apischema.cache.reset()
    mod = pyrun.exec_module(EXTRA_SRC)
    info = dict(source=EXTRA_SRC)
    try:
        Page, Book = mod.Page, mod.Book
        for aname, al in (("id", lambda s: s), ("camel", to_camel_case), ("custom", lambda s: s + "_x")):
            exp_page = [al("p_page_items"), al("p_page_size"), al("raw_name")]
            for tp in (Page[int], Page[str]):
                v = Page([1] if tp == Page[int] else ["a"], 5, 2)
                R.count("generic_probe")
                out = serialize(tp, v, aliaser=al)
                if list(out) != exp_page:
                    R.violation(f"serialize({tp}) keys {list(out)} differ from the external names {exp_page} (aliaser {aname})", info)
                    continue
                if deserialize(tp, out, aliaser=al) != v:
                    R.violation(f"deserialize({tp}) does not consume the keys serialize produces (aliaser {aname})", info)
                for fn in (deserialization_schema, serialization_schema):
                    doc = fn(tp, aliaser=al, with_schema=False, all_refs=False)
                    props = list(doc.get("properties", doc.get("$defs", {}).get("Page", {}).get("properties", {})))
                    if props != exp_page:
                        R.violation(f"{fn.__name__}({tp}) properties {props} differ from {exp_page} (aliaser {aname})", info)
                try:
                    deserialize(tp, dict(out, **{exp_page[1]: 99}), aliaser=al)
                    R.violation("validator did not fail", info)
                except ValidationError as e:
                    locs = [x["loc"] for x in e.errors]
                    if locs != [[exp_page[1]]]:
                        R.violation(f"validator location {locs} differs from [[{exp_page[1]!r}]] for {tp} (aliaser {aname})", info)
            # validators after a discarding failure keep the dynamic aliaser
            data = {al("pages"): {exp_page[0]: [1]}, al("first_field"): 99, al("second_field"): 99}
            R.count("discard_probe")
            try:
                deserialize(Book, data, aliaser=al)
                R.violation("validators did not fail", info)
            except ValidationError as e:
                locs = sorted(tuple(x["loc"]) for x in e.errors)
                want = sorted([(al("first_field"),), (al("second_field"),)])
                if locs != want:
                    R.violation(f"validator locations {locs} differ from the external names {want} (aliaser {aname})", info)
            data[al("second_field")] = 98
            try:
                deserialize(Book, data, aliaser=al)
                R.violation("validators did not fail", info)
            except ValidationError as e:
                locs = sorted(tuple(x["loc"]) for x in e.errors)
                want = sorted([(al("first_field"),), (al("second_field"),)])
                if locs != want:
                    R.violation(f"field validator location {locs} differs from the external names {want} (aliaser {aname})", info)
            # a structural error next to failing validators that do not depend on the invalid field (the error path of
            # ObjectMethod.deserialize): every location of the merged error uses the external names
            data = {al("pages"): "not an object", al("first_field"): 99, al("second_field"): 98}
            R.count("error_path_probe")
            try:
                deserialize(Book, data, aliaser=al)
                R.violation("invalid data accepted", info)
            except ValidationError as e:
                locs = sorted(tuple(x["loc"]) for x in e.errors)
                want = sorted([(al("pages"),), (al("first_field"),), (al("second_field"),)])
                if locs != want:
                    R.violation(f"locations {locs} of a structural error merged with validator errors differ from the external "
                                f"names {want} (aliaser {aname})", info)
    except Exception as e:
        R.violation(f"{type(e).__name__} in the generic / discard probe: {e}", info)
    finally:
        pyrun.drop_module(mod)
        apischema.cache.reset()


def replay(data):
    r = data["replay"]
    print(r.get("source"))
    print(json.dumps({k: v for k, v in r.items() if k != "source"}, indent=1, default=str)[:3000])
