"""C12 — conversions compose: a converted type behaves as its source / target."""
import json

from harness import core, pyrun
from harness.core import coq_str, coq_list, coq_bool, coq_nat, coq_Z

HEADER = """From Coq Require Import List String ZArith Bool Arith.
From AV Require Import Small.Conv.
Import ListNotations.
Open Scope string_scope.
"""
NK, NO = 3, 2


# ------------------------------------------------------------------ descriptors
def ty_src(t):
    k = t[0]
    if k == "int":
        return "int"
    if k == "str":
        return "str"
    if k == "k":
        return f"K{t[1]}"
    if k == "list":
        return f"List[{ty_src(t[1])}]"
    if k == "union":
        return "Union[" + ", ".join(ty_src(a) for a in t[1]) + "]"
    if k == "obj":
        return f"O{t[1]}"
    raise AssertionError(t)


def ty_coq(t):
    k = t[0]
    if k == "int":
        return "CInt"
    if k == "str":
        return "CStr"
    if k == "k":
        return f"(CK {t[1]})"
    if k == "list":
        return f"(CList {ty_coq(t[1])})"
    if k == "union":
        return f"(CUnion {coq_list(map(ty_coq, t[1]))})"
    if k == "obj":
        return f"(CObj {t[1]})"


def target_coq(tg):
    return f"(TK {tg[1]})" if tg[0] == "k" else f"(TO {tg[1]})"


def conv_coq(c):
    return (f"(mkConv {target_coq(c['target'])} {ty_coq(c['source'])} {coq_nat(c['fid'])} {coq_bool(c['catch'])} "
            f"{coq_bool(c.get('identity', False))})")


def data_coq(d):
    if isinstance(d, bool):
        raise ValueError
    if isinstance(d, int):
        return f"(DInt {coq_Z(d)})"
    if isinstance(d, str):
        return f"(DStr {coq_str(d)})"
    if isinstance(d, list):
        return f"(DList {coq_list(map(data_coq, d))})"
    if isinstance(d, dict):
        return "(DDict " + coq_list(f"({coq_str(k)}, {data_coq(v)})" for k, v in d.items()) + ")"
    raise ValueError


def gen_source(rng, depth, allow_k, allow_obj):
    opts = ["int", "int", "str", "list", "union"]
    if allow_k and depth > 0:
        opts.append("k")
    if allow_obj and depth > 0:
        opts.append("obj")
    c = rng.choice(opts)
    if c == "int":
        return ("int",)
    if c == "str":
        return ("str",)
    if c == "list":
        return ("list", rng.choice([("int",), ("str",)]))
    if c == "union":
        return ("union", [("int",), ("list", ("str",))])
    if c == "k":
        return ("k", rng.choice(allow_k))
    return ("obj", rng.choice(allow_obj))


def gen_world(rng):
    w = dict(convs=[], fields={}, reg={})
    fid = 0
    # K2 is never the source of K0/K1 (no cycles): K_k may use K_j with j > k
    for k in range(NK):
        n = rng.choice([0, 1, 1, 1, 2, 3]) if k < NK - 1 else rng.choice([1, 1, 2])
        for _ in range(n):
            src = gen_source(rng, 1, [j for j in range(k + 1, NK)], [])
            w["convs"].append(dict(fid=fid, target=("k", k), source=src, catch=rng.random() < 0.5, registered=True))
            fid += 1
    for c in range(NO):
        nf = rng.randint(1, 2)
        fs = []
        for i in range(nf):
            ft = rng.choice([("int",), ("str",), ("k", rng.randrange(NK)), ("list", ("k", rng.randrange(NK)))])
            fconv = None
            if ft[0] == "k" and rng.random() < 0.35:      # field-level conversion
                fconv = dict(fid=fid, target=ft, source=rng.choice([("int",), ("str",)]), catch=True, registered=False)
                fid += 1
            fs.append(dict(name=f"f{i}", ty=ft, conv=fconv))
        w["fields"][c] = fs
        if rng.random() < 0.3:                             # a dataclass with a registered deserializer
            w["convs"].append(dict(fid=fid, target=("obj", c), source=rng.choice([("int",), ("str",)]), catch=False, registered=True))
            fid += 1
    w["dynamic_pool"] = []
    for _ in range(3):
        tg = rng.choice([("k", rng.randrange(NK)), ("k", rng.randrange(NK)), ("obj", rng.randrange(NO))])
        w["dynamic_pool"].append(dict(fid=fid, target=tg, source=rng.choice([("int",), ("str",), ("list", ("int",))]),
                                      catch=rng.random() < 0.5, registered=False))
        fid += 1
    w["nfun"] = fid
    return w


def world_src(w):
    L = ["from dataclasses import dataclass, field", "from typing import List, Union, Optional",
         "from apischema import deserializer, serializer, identity", "from apischema.conversions import Conversion, catch_value_error",
         "from apischema.metadata import conversion", ""]
    for k in range(NK):
        L += [f"class K{k}:", "    def __init__(self, fid, inner):", "        self.fid, self.inner = fid, inner",
              "    def __eq__(self, o): return type(o) is type(self) and (o.fid, o.inner) == (self.fid, self.inner)",
              f"    def __repr__(self): return f'K{k}({{self.fid}}, {{self.inner!r}})'", ""]
    allc = w["convs"] + [f["conv"] for fs in w["fields"].values() for f in fs if f["conv"]] + w["dynamic_pool"]
    L += ["def _mk_obj(cls, fid, x):", "    o = cls.__new__(cls)", "    o.__dict__['converted'] = (fid, x)", "    return o", ""]

    def fun(c):
        tgt = ty_src(c["target"])
        ctor = f"{tgt}({c['fid']}, x)" if c["target"][0] == "k" else f"_mk_obj({tgt}, {c['fid']}, x)"
        return [f"def f{c['fid']}(x: {ty_src(c['source'])}) -> {tgt}:", "    if x == 13 or x == 'bad':",
                f"        raise ValueError('f{c['fid']} refuses')", f"    return {ctor}", ""]
    # converters towards opaque classes, then the dataclasses (their field conversions use them), then the others
    for c in sorted(allc, key=lambda c: c["fid"]):
        if c["target"][0] == "k":
            L += fun(c)
    for c, fs in w["fields"].items():
        L += ["@dataclass", f"class O{c}:"]
        for f in fs:
            if f["conv"]:
                L.append(f"    {f['name']}: {ty_src(f['ty'])} = field(metadata=conversion(deserialization=catch_value_error(f{f['conv']['fid']})))")
            else:
                L.append(f"    {f['name']}: {ty_src(f['ty'])}")
        L.append("")
    for c in sorted(allc, key=lambda c: c["fid"]):
        if c["target"][0] != "k":
            L += fun(c)
    for c in sorted(w["convs"], key=lambda c: c["fid"]):
        L.append(f"deserializer({'catch_value_error(' if c['catch'] else '('}f{c['fid']}))")
    return "\n".join(L)


def world_coq(w):
    reg = {}
    for c in w["convs"]:
        reg.setdefault(target_coq(c["target"]), []).append(conv_coq(c))
    regf = "(fun t => " + "".join(f"if target_eqb t {t} then {coq_list(cs)} else " for t, cs in reg.items()) + "[])"
    fl = "(fun c => " + "".join(
        f"if Nat.eqb c {c} then " + coq_list(f"({coq_str(f['name'])}, {ty_coq(f['ty'])}, {coq_list([conv_coq(f['conv'])] if f['conv'] else [])})" for f in fs) + " else "
        for c, fs in w["fields"].items()) + "[])"
    fails = "(fun _ v => match v with XInt 13 => true | XStr \"bad\" => true | _ => false end)"
    return f"(mkW {regf} {fl} {fails})"


def gen_data(rng, w, t, dyn, depth=3):
    """mostly-valid data for type t under the conversions in force"""
    k = t[0]
    if depth <= 0:
        return rng.choice([1, "a"])
    if rng.random() < 0.12:
        return rng.choice([1, "a", [1], {"f0": 1}, 13, "bad", [13], ["a"]])
    if k == "int":
        return rng.choice([0, 1, 2, 13, 7])
    if k == "str":
        return rng.choice(["a", "x", "bad", ""])
    if k == "list":
        return [gen_data(rng, w, t[1], dyn, depth - 1) for _ in range(rng.choice([0, 1, 2]))]
    if k == "union":
        return gen_data(rng, w, rng.choice(t[1]), dyn, depth - 1)
    tg = t
    m = [c for c in dyn if c["target"] == tg]
    convs = m or [c for c in w["convs"] if c["target"] == tg]
    if convs:
        return gen_data(rng, w, rng.choice(convs)["source"], [], depth - 1)
    if k == "obj":
        return {f["name"]: gen_data(rng, w, f["ty"], [f["conv"]] if f["conv"] else [], depth - 1) for f in w["fields"][t[1]]}
    return rng.choice([1, "a"])


def render(v, mod):
    """observed value -> cval term"""
    if isinstance(v, bool):
        raise ValueError
    if isinstance(v, int):
        return f"(XInt {coq_Z(v)})"
    if isinstance(v, str):
        return f"(XStr {coq_str(v)})"
    if isinstance(v, (list, tuple)):
        return f"(XList {coq_list(render(x, mod) for x in v)})"
    name = type(v).__name__
    if name.startswith("K"):
        return f"(XApp {coq_nat(v.fid)} {render(v.inner, mod)})"
    if name.startswith("O"):
        if "converted" in v.__dict__:
            fid, x = v.__dict__["converted"]
            return f"(XApp {coq_nat(fid)} {render(x, mod)})"
        import dataclasses
        return f"(XObj {name[1:]} {coq_list('(%s, %s)' % (coq_str(f.name), render(getattr(v, f.name), mod)) for f in dataclasses.fields(v))})"
    raise ValueError(name)


def run(tier):
    R = core.Run("C12", tier)
    R.trusted = core.TRUSTED_COMMON + [
        "Small/Conv.v models the resolution of conversions (dynamic vs registered, propagation through collections and unions, "
        "not into object fields, field-level conversions, identity) and the conversion methods (single / union / "
        "catch_value_error) over opaque classes; sub_conversion, generic and lazy conversions are not modelled",
        "converters are tagging functions (the result records which converter built it), so results are compared as terms"]
    R.coq_build(["Small/Conv.v", "Small/ConvProofs.v"])
    pyrun.ensure_repo_on_path()
    import apischema.cache
    from apischema import deserialize, serialize, ValidationError, identity, serializer
    from apischema.conversions import catch_value_error
    from apischema.visitor import Unsupported
    from apischema.json_schema import deserialization_schema
    import jsonschema
    rng = R.rng
    nw = 60 if tier == "quick" else 600
    items, meta, worlds = [], [], []
    for wi in range(nw):
        w = gen_world(rng)
        src = world_src(w)
        apischema.cache.reset()
        try:
            mod = pyrun.exec_module(src)
        except Exception as e:
            R.count("world_rejected:" + type(e).__name__)
            continue
        worlds.append(f"Definition W{len(worlds)} : world := {world_coq(w)}.")
        widx = len(worlds) - 1
        for ti in range(10):
            base = rng.choice([("k", rng.randrange(NK)), ("k", rng.randrange(NK)), ("obj", rng.randrange(NO))])
            t = rng.choice([base, ("list", base), ("union", [base, ("str",)]), ("list", ("union", [("int",), base]))])
            dmode = rng.choice(["none", "none", "one", "two", "identity"])
            dyn = []
            if dmode == "one":
                dyn = [rng.choice(w["dynamic_pool"])]
            elif dmode == "two":
                dyn = rng.sample(w["dynamic_pool"], 2)
            elif dmode == "identity":
                dyn = [dict(fid=0, target=base, source=base, catch=False, identity=True)]
            T = eval(ty_src(t), {**mod.__dict__})
            kw = {}
            if dyn:
                convs = [identity if c.get("identity") else (catch_value_error(getattr(mod, f"f{c['fid']}")) if c["catch"]
                                                             else getattr(mod, f"f{c['fid']}")) for c in dyn]
                kw["conversion"] = tuple(convs) if len(convs) > 1 else convs[0]
            for di in range(6):
                d = gen_data(rng, w, t, dyn)
                try:
                    v = deserialize(T, d, **kw)
                    ob = ("val", v)
                except ValidationError:
                    ob = ("err", None)
                except Unsupported:
                    ob = ("raise", "Unsupported")
                except ValueError:
                    ob = ("raise", "ValueError")
                except RecursionError:
                    R.violation("deserialize raised RecursionError", dict(source=src, type=ty_src(t), data=d, dynamic=dyn))
                    continue
                except Exception as e:
                    R.violation(f"deserialize raised {type(e).__name__}: {e}", dict(source=src, type=ty_src(t), data=d, dynamic=dyn))
                    continue
                try:
                    oc = {"val": lambda: f"(OVal {render(ob[1], mod)})", "err": lambda: "OErr",
                          "raise": lambda: f"(ORaise {coq_str(ob[1])})"}[ob[0]]()
                    items.append(f"(W{widx}, {coq_list(map(conv_coq, dyn))}, {ty_coq(t)}, {data_coq(d)}, {oc})")
                    meta.append(dict(source=src, type=ty_src(t), data=d, dynamic=dyn, observed=oc))
                except ValueError:
                    R.count("outside_fragment")
                    continue
                R.note_case((t[0], dmode, ob[0]), sample=dict(type=ty_src(t), data=d, dynamic=[c["fid"] for c in dyn], observed=oc))
                R.count("outcome:" + ob[0]); R.count("dynamic:" + dmode)
            # schema of a converted type = what deserialize accepts (converters apart)
            if not dyn:
                try:
                    doc = json.loads(json.dumps(deserialization_schema(T, with_schema=False)))
                    for di in range(4):
                        d = gen_data(rng, w, t, [])
                        if contains(d, (13, "bad")):
                            continue
                        try:
                            deserialize(T, d)
                            acc = True
                        except ValidationError:
                            acc = False
                        except Exception:
                            continue
                        valid = jsonschema.Draft202012Validator(doc).is_valid(d)
                        R.count("schema_compared")
                        if acc != valid:
                            R.violation(f"deserialize {'accepts' if acc else 'rejects'} but the schema of the converted type says "
                                        f"{'valid' if valid else 'invalid'}", dict(source=src, type=ty_src(t), data=d, schema=doc))
                except Unsupported:
                    pass
                except Exception as e:
                    R.count("schema_failed:" + type(e).__name__)
        serialization_probe(R, mod, w, src)
        pyrun.drop_module(mod)
    apischema.cache.reset()
    from harness import probes
    probes.dynamic_over_default_conversion(R)
    recursive_field_conversion_probe(R)
    lazy_and_generic_probe(R)
    probes.conversion_extra_probe(R)
    T1 = "world * list conv * cty * cdata * cobs"
    bad, errs = core.run_coq_shards("C12", HEADER + "\n".join(worlds) + "\n", items,
                                    "(fun c : " + T1 + " => let '(w, dyn, t, d, o) := c in cres_matches (deserialize_c w 12 dyn t d) o)",
                                    item_type=T1, shard=250)
    for k, e in errs:
        R.broken.append(f"coq evaluation failed (shard {k}): {e[-300:]}")
    for i in bad[:6]:
        R.violation("deserialize differs from the composition computed by the model of conversions (which converter applies "
                    "where, in which order)", meta[i])
    R.hist["model_cases"] = len(items)
    R.hist["model_mismatches"] = len(bad)
    return R.finish(
        rule="worlds of 3 opaque classes with 0-3 registered deserializers each (sources int / str / list / union / another "
             "opaque class, with or without catch_value_error, converters refusing 13 / 'bad'), 2 dataclasses with fields of "
             "opaque types, field-level conversions and sometimes a registered deserializer; types K, List[K], Union[K, str], "
             "List[Union[int, K]], dataclasses x dynamic conversion in {none, one, two, identity} x mostly-valid data; the "
             "result is compared as a term (which converter built what); schema of converted types vs acceptance; serializers: "
             "serialize(T, v) = serialize(U, g(v)), inherited by subclasses")


def contains(d, vals):
    if isinstance(d, list):
        return any(contains(x, vals) for x in d)
    if isinstance(d, dict):
        return any(contains(x, vals) for x in d.values())
    return any(type(d) is type(v) and d == v for v in vals)


def serialization_probe(R, mod, w, src):
    """serialize(T, v) == serialize(U, g(v)); subclasses inherit the serializer"""
    import apischema.cache
    from apischema import serialize, serializer
    from typing import List
    K0 = mod.K0

    def g(k: K0) -> List[int]:
        return [k.fid, 7]
    serializer(g)
    try:
        class Sub(K0):
            pass
        for v in (K0(1, "x"), Sub(2, "y")):
            for T in (type(v), K0):
                R.count("serializer_probe")
                got = serialize(T, v)
                want = serialize(List[int], g(v))
                if got != want:
                    R.violation(f"serialize({T.__name__}, {v!r}) = {got!r} differs from serialize(List[int], g(v)) = {want!r}",
                                dict(source=src))
        got = serialize(List[K0], [K0(1, "x"), Sub(3, "z")])
        if got != [[1, 7], [3, 7]]:
            R.violation(f"serializer not applied through a list / to subclass instances: {got!r}", dict(source=src))
    except Exception as e:
        R.violation(f"serialization probe raised {type(e).__name__}: {e}", dict(source=src))
    finally:
        apischema.cache.reset()


REC_SRC = '''
from dataclasses import dataclass, field
from typing import List, Optional
from apischema.conversions import LazyConversion
from apischema.metadata import conversion

@dataclass
class Node:
    value: int
    child: Optional["Node"] = None
    chain: Optional["Node"] = field(default=None, metadata=conversion(
        deserialization=LazyConversion(lambda: from_list), serialization=LazyConversion(lambda: to_list)))

def from_list(nodes: List[Node]) -> Node:
    head = None
    for node in reversed(nodes):
        head = Node(node.value, node.child, head)
    return head

def to_list(node: Node) -> List[Node]:
    result, cur = [], node
    while cur is not None:
        result.append(Node(cur.value, cur.child))
        cur = cur.chain
    return result
'''


def recursive_field_conversion_probe(R):
    """a field-level conversion on a field typed by the enclosing recursive class applies there and only there"""
    import apischema.cache
    from typing import List
    from apischema import deserialize, serialize, ValidationError
    apischema.cache.reset()
    mod = pyrun.exec_module(REC_SRC)
    Node, from_list, to_list = mod.Node, mod.from_list, mod.to_list
    info = dict(source=REC_SRC)
    try:
        data = {"value": 0, "child": {"value": 5}, "chain": [{"value": 1}, {"value": 2}]}
        R.count("recursive_field_conversion_probe")
        expected = Node(0, Node(5), from_list(deserialize(List[Node], data["chain"])))
        try:
            got = deserialize(Node, data)
            if got != expected:
                R.violation(f"deserialize(Node, d) = {got!r} differs from f(deserialize(S, d)) = {expected!r} at the converted field", info)
        except ValidationError as e:
            R.violation(f"the field conversion is not applied on a recursive class: {e.errors}", info)
        for bad in ({"value": 0, "chain": {"value": 1}}, {"value": 0, "child": [{"value": 1}]}):
            try:
                deserialize(Node, bad)
                R.violation(f"{bad!r} accepted: the source type of the field conversion is not enforced, or the conversion is "
                            "applied where it is not declared", info)
            except ValidationError:
                pass
        value = Node(0, Node(5), Node(1, None, Node(2)))
        want = {"value": 0, "child": {"value": 5, "child": None, "chain": None}, "chain": serialize(List[Node], to_list(value.chain))}
        got = serialize(Node, value)
        if got != want:
            R.violation(f"serialize(Node, v) = {got!r} differs from the serialization through g = {want!r}", info)
    except Exception as e:
        R.violation(f"{type(e).__name__} in the recursive field conversion probe: {e}", info)
    finally:
        pyrun.drop_module(mod)
        apischema.cache.reset()


GEN_SRC = '''
from dataclasses import dataclass
from typing import Dict, Generic, List, TypeVar
from apischema import deserializer, serializer
from apischema.conversions import Conversion

T = TypeVar("T")

class W1(Generic[T]):
    def __init__(self, x): self.x = x
    def __eq__(self, o): return type(o) is type(self) and o.x == self.x
    def __repr__(self): return f"{type(self).__name__}({self.x!r})"
class W2(W1[T]): pass
class W3(W1[T]): pass
class W4(W1[T]): pass

@deserializer
def mk1(x: T) -> W1[T]: return W1(x)
@deserializer
def mk2(x: List[T]) -> W2[T]: return W2(x)
@deserializer
def mk3(x: List[List[T]]) -> W3[T]: return W3(x)
@deserializer
def mk4(x: Dict[str, List[T]]) -> W4[T]: return W4(x)

class A1:                      # four unrelated roots: a subclass must find the serializer of its own root
    def __init__(self, n): self.n = n
class B1(A1): pass
class A2:
    def __init__(self, n): self.n = n
class B2(A2): pass
class A3:
    def __init__(self, n): self.n = n
class B3(A3): pass
class A4:
    def __init__(self, n): self.n = n
class B4(A4): pass

def g(a) -> List[int]: return [a.n, 7]
def g1(a: A1) -> List[int]: return g(a)
serializer(g1)
def g2(a: A2) -> List[int]: return g(a)
serializer(Conversion(g2))
def g3(a: A3) -> List[int]: return g(a)
serializer(lazy=lambda: g3, source=A3)
def g4(a: A4) -> List[int]: return g(a)
serializer(lazy=lambda: Conversion(g4), source=A4)
'''


def lazy_and_generic_probe(R):
    """a serializer is inherited by subclasses however it was registered (function, Conversion, lazy function, lazy Conversion);
    a generic deserializer f: S[T] -> W[T] makes deserialize(W[X], d) = f(deserialize(S[X], d)), rejecting exactly what S[X]
    rejects, wherever T stands in S"""
    import apischema.cache
    from typing import Dict, List
    from apischema import deserialize, serialize, ValidationError
    apischema.cache.reset()
    mod = pyrun.exec_module(GEN_SRC)
    info = dict(source=GEN_SRC)
    try:
        for style, (A, B) in dict(function=(mod.A1, mod.B1), conversion=(mod.A2, mod.B2), lazy_function=(mod.A3, mod.B3),
                                  lazy_conversion=(mod.A4, mod.B4)).items():
            for T, v in ((A, A(1)), (B, B(2)), (A, B(3)), (List[B], [B(4)])):
                R.count("inherited_serializer:" + style)
                want = serialize(List[List[int]], [mod.g(x) for x in v]) if isinstance(v, list) else serialize(List[int], mod.g(v))
                try:
                    got = serialize(T, v)
                except Exception as e:   # noqa
                    R.violation(f"serializer registered as {style}: serialize({T}, instance of {type(v).__name__}) raised "
                                f"{type(e).__name__}: {e} (subclasses inherit a serializer)", info)
                    continue
                if got != want:
                    R.violation(f"serializer registered as {style}: serialize({T}, ...) = {got!r} instead of {want!r}", info)
        for W, S, mk in ((mod.W1, lambda X: X, mod.mk1), (mod.W2, lambda X: List[X], mod.mk2),
                         (mod.W3, lambda X: List[List[X]], mod.mk3), (mod.W4, lambda X: Dict[str, List[X]], mod.mk4)):
            for X in (int, str, List[int]):
                for d in (1, "a", [1], ["a"], [[1]], [["a"]], [[1], ["a"]], [[[1]]], {"k": [1]}, {"k": ["a"]}, {"k": [[1]]}, {"k": 1}, None):
                    R.count("generic_deserializer")
                    try:
                        want = ("ok", mk(deserialize(S(X), d)))
                    except ValidationError as e:
                        want = ("err", e.errors)
                    try:
                        got = ("ok", deserialize(W[X], d))
                    except ValidationError as e:
                        got = ("err", e.errors)
                    except Exception as e:   # noqa
                        got = ("raise", f"{type(e).__name__}: {e}")
                    if got != want:
                        R.violation(f"generic deserializer {mk.__name__}: deserialize({W.__name__}[{X}], {d!r}) gives {got!r} but "
                                    f"f(deserialize(S, d)) gives {want!r}", dict(info, data=repr(d)))
    except Exception as e:
        R.violation(f"{type(e).__name__} in the lazy / generic conversion probe: {e}", info)
    finally:
        pyrun.drop_module(mod)
        apischema.cache.reset()


def replay(data):
    r = data["replay"]
    print(r.get("source"))
    print(json.dumps({k: v for k, v in r.items() if k != "source"}, indent=1, default=str)[:3000])
