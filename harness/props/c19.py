"""C19 — GraphQL schema mirrors the data model and executes like (de)serialize."""
import json

from harness import core, pyrun
from harness.core import coq_str, coq_list

HEADER = """From Coq Require Import List String Bool Arith.
From AV Require Import Small.Gql.
Import ListNotations.
Open Scope string_scope.
"""
PRIMS = {"int": ("int", "GInt"), "float": ("float", "GFloat"), "str": ("str", "GStr"), "bool": ("bool", "GBool")}


# ------------------------------------------------------------------ descriptors
def gen_ty(rng, ncls, nen, depth, allow_obj=True):
    r = rng.random()
    if depth > 0 and r < 0.2:
        return ("list", gen_ty(rng, ncls, nen, depth - 1, allow_obj))
    if depth > 0 and r < 0.4:
        return ("opt", gen_ty(rng, ncls, nen, depth - 1, allow_obj))
    if r < 0.5 and nen:
        return ("enum", rng.randrange(nen))
    if r < 0.65 and ncls and allow_obj:
        return ("obj", rng.randrange(ncls))
    return (rng.choice(list(PRIMS)),)


def ty_src(t, quote=True):
    """quote=False outside class bodies: typing caches Optional["C1"] (and the class its ForwardRef resolved to) across the
    generated modules, which all use the same class names"""
    k = t[0]
    if k in PRIMS:
        return PRIMS[k][0]
    if k == "list":
        return f"List[{ty_src(t[1], quote)}]"
    if k == "opt":
        return f"Optional[{ty_src(t[1], quote)}]"
    if k == "undef":
        return f"Union[{ty_src(t[1], quote)}, UndefinedType]"
    if k == "enum":
        return f"E{t[1]}"
    if k == "obj":
        return f'"C{t[1]}"' if quote else f"C{t[1]}"
    if k == "con":
        return f"Annotated[{ty_src(t[1], quote)}, schema(min=0)]"


def ty_coq(t):
    k = t[0]
    if k in PRIMS:
        return PRIMS[k][1]
    if k == "list":
        return f"(GList {ty_coq(t[1])})"
    if k == "opt":
        return f"(GOpt {ty_coq(t[1])})"
    if k == "undef":
        return f"(GUndef {ty_coq(t[1])})"
    if k == "enum":
        return f'(GEnum "E{t[1]}")'
    if k == "obj":
        return f'(GObj "C{t[1]}")'
    if k == "con":
        return ty_coq(t[1])


def gen_universe(rng):
    nen = rng.choice([0, 1, 2])
    ncls = rng.choice([1, 2, 3])
    enums = [rng.choice([[("A", 1), ("B", 2)], [("A", "a"), ("B_C", "b")], [("X", 1), ("Y", "y"), ("Z", 0)]]) for _ in range(nen)]
    classes = []
    names = ["a", "b_c", "d", "snake_name", "e"]
    for c in range(ncls):
        fs = []
        for n in rng.sample(names, rng.randint(1, 4)):
            t = gen_ty(rng, ncls, nen, 2)
            if t[0] == "obj" and t[1] <= c:
                t = ("opt", t)          # a required reference only goes to a later class: values stay finite
            req = rng.random() < 0.5
            if t[0] not in ("opt",) and not req and rng.random() < 0.25:
                t = ("undef", t)
            fs.append(dict(name=n, ty=t, required=req and t[0] != "undef", alias=rng.choice([None, None, "aliased_" + n])))
        fs.sort(key=lambda f: not f["required"])
        classes.append(dict(fields=fs))
    return dict(enums=enums, classes=classes)


def default_for(t, u):
    k = t[0]
    if k == "undef":
        return "Undefined"
    if k == "opt":
        return "None"
    if k == "list":
        return None      # default_factory=list
    if k == "enum":
        return f"E{t[1]}.{u['enums'][t[1]][0][0]}"
    if k == "obj":
        return "None"    # the field is made Optional (see universe_src)
    if k == "con":
        return default_for(t[1], u)
    return {"int": "0", "float": "1.5", "str": "''", "bool": "False"}[k]


def universe_src(u):
    L = ["from dataclasses import dataclass, field", "from enum import Enum", "from typing import List, Optional, Union, Annotated",
         "from apischema import alias, schema, Undefined, UndefinedType", ""]
    for i, e in enumerate(u["enums"]):
        L.append(f"class E{i}(Enum):")
        L += [f"    {n} = {v!r}" for n, v in e]
        L.append("")
    for ci, c in enumerate(u["classes"]):
        L += ["@dataclass", f"class C{ci}:"]
        for f in c["fields"]:
            md = f"metadata=alias({f['alias']!r})" if f["alias"] else ""
            if f["required"]:
                L.append(f"    {f['name']}: {ty_src(f['ty'])}" + (f" = field({md})" if md else ""))
            else:
                t = f["ty"]
                if t[0] == "obj":
                    f["ty"] = t = ("opt", t)
                d = default_for(t, u)
                if d is None:
                    L.append(f"    {f['name']}: {ty_src(t)} = field(default_factory=list{', ' + md if md else ''})")
                else:
                    L.append(f"    {f['name']}: {ty_src(t)} = field(default={d}{', ' + md if md else ''})")
        L.append("")
    return "\n".join(L)


def camel(s):
    import re
    return re.sub(r"_([a-z\d])", lambda m: m.group(1).upper(), s)


FAIL = object()      # no finite value at this depth


class VG:
    def __init__(self, rng, u, mod):
        self.rng, self.u, self.mod = rng, u, mod

    def value(self, t, depth):
        rng, k = self.rng, t[0]
        if k == "int":
            return rng.choice([0, 1, 7])
        if k == "float":
            return rng.choice([0.5, 1.5, -2.25])
        if k == "str":
            return rng.choice(["", "a", "xy"])
        if k == "bool":
            return rng.choice([True, False])
        if k == "enum":
            return rng.choice(list(self.mod.__dict__[f"E{t[1]}"]))
        if k == "list":
            items = [self.value(t[1], depth - 1) for _ in range(rng.choice([0, 1, 2]) if depth > 0 else 0)]
            return [x for x in items if x is not FAIL]
        if k == "opt":
            if rng.random() < 0.4 or depth <= 0:
                return None
            v = self.value(t[1], depth - 1)
            return None if v is FAIL else v
        if k == "undef":
            from apischema import Undefined
            if rng.random() < 0.5:
                return Undefined
            v = self.value(t[1], depth)
            return Undefined if v is FAIL else v
        if k == "obj":
            return self.obj(t[1], depth - 1)
        if k == "con":
            return self.value(t[1], depth)

    def obj(self, ci, depth):
        if depth < -1:
            return FAIL
        c = self.u["classes"][ci]
        kw = {}
        for f in c["fields"]:
            if f["required"] or self.rng.random() < 0.6:
                v = self.value(f["ty"], depth)
                if v is FAIL:
                    if f["required"]:
                        return FAIL
                    continue
                kw[f["name"]] = v
        return self.mod.__dict__[f"C{ci}"](**kw)


def selection(u, ci, depth, aliaser):
    """select every field; nested objects down to `depth`"""
    parts = []
    for f in u["classes"][ci]["fields"]:
        name = aliaser(f["alias"] or f["name"])
        t = f["ty"]
        while t[0] in ("list", "opt", "undef", "con"):
            t = t[1]
        if t[0] == "obj":
            if depth > 0:
                parts.append(f"{name} {selection(u, t[1], depth - 1, aliaser)}")
        else:
            parts.append(name)
    if not parts:
        parts.append("__typename")
    return "{ " + " ".join(parts) + " }"


def expected(u, t, v, depth, aliaser):
    """what the query must return: serialize without omission, enums by name, Undefined as null, pruned like the selection"""
    from apischema import Undefined
    import enum
    k = t[0]
    if v is None or v is Undefined:
        return None
    if k in ("opt", "undef", "con"):
        return expected(u, t[1], v, depth, aliaser)
    if k == "list":
        return [expected(u, t[1], x, depth, aliaser) for x in v]
    if k == "enum":
        return v.name
    if k == "obj":
        out = {}
        for f in u["classes"][t[1]]["fields"]:
            ft = f["ty"]
            b = ft
            while b[0] in ("list", "opt", "undef", "con"):
                b = b[1]
            if b[0] == "obj" and depth <= 0:
                continue
            out[aliaser(f["alias"] or f["name"])] = expected(u, ft, getattr(v, f["name"]), depth - 1 if b[0] == "obj" else depth, aliaser)
        if not out:
            out["__typename"] = f"C{t[1]}"
        return out
    return v


def run(tier):
    R = core.Run("C19", tier)
    R.trusted = core.TRUSTED_COMMON + [
        "graphql-core is the executor and the validator of the generated schema (trusted oracle)",
        "Small/Gql.v models the type mapping (named type, list, non-null) of output fields and arguments; the expected "
        "execution result is computed by the harness from the value (enums by name, Undefined as null, no omission)"]
    R.coq_build(["Small/Gql.v", "Small/GqlProofs.v"])
    pyrun.ensure_repo_on_path()
    import graphql
    import apischema.cache
    from apischema import serialize, deserialize, ValidationError, Undefined
    from apischema.graphql import graphql_schema
    rng = R.rng
    items, meta = [], []
    n = 60 if tier == "quick" else 600
    for ui in range(n):
        u = gen_universe(rng)
        src = universe_src(u)
        apischema.cache.reset()
        try:
            mod = pyrun.exec_module(src)
        except Exception as e:
            R.count("universe_rejected:" + type(e).__name__)
            continue
        aliaser_name = rng.choice(["camel", "camel", "id"])
        aliaser = camel if aliaser_name == "camel" else (lambda s: s)
        gen = VG(rng, u, mod)
        values, resolvers, calls = {}, [], []
        ns = dict(mod.__dict__)
        for ci in range(len(u["classes"])):
            v = FAIL
            for _ in range(6):
                v = gen.obj(ci, 3)
                if v is not FAIL:
                    break
            if v is FAIL:
                continue
            values[ci] = v
            ns["_values"] = values
            exec(f"def get_c{ci}() -> C{ci}:\n    return _values[{ci}]\n", ns)
            resolvers.append(ns[f"get_c{ci}"])
        # a resolver whose arguments are the fields of class 0
        params, pmeta = [], []
        for f in u["classes"][0]["fields"]:
            t = f["ty"]
            if t[0] == "undef":
                continue
            if t == ("int",) and rng.random() < 0.5:
                t = ("con", t)
            if f["required"]:
                params.append(f"{f['name']}: {ty_src(t, False)}")
                pmeta.append((f["name"], t, "DRequired"))
            else:
                d = default_for(t, u)
                if d is None:
                    continue
                params.append(f"{f['name']}: {ty_src(t, False)} = {d}")
                pmeta.append((f["name"], t, "DNone" if d == "None" else "DSerializable"))
        ns["_calls"] = calls
        exec(f"def echo({', '.join(params)}) -> int:\n    _calls.append(dict({', '.join(n + '=' + n for n, _, _ in pmeta)}))\n    return 1\n", ns)
        resolvers.append(ns["echo"])
        info = dict(source=src, aliaser=aliaser_name)
        try:
            schema = graphql_schema(query=resolvers, aliaser=aliaser, enum_aliaser=None)
        except Exception as e:
            R.violation(f"graphql_schema raised {type(e).__name__}: {e}", info)
            pyrun.drop_module(mod)
            continue
        errs = graphql.validate_schema(schema)
        if errs:
            R.violation(f"the schema does not pass graphql-core validation: {errs[0]}", info)
        try:
            printed = graphql.print_schema(schema)
            intro = graphql.graphql_sync(schema, graphql.get_introspection_query())
            if intro.errors:
                R.violation(f"introspection fails: {intro.errors[0]}", info)
        except Exception as e:
            R.violation(f"print_schema / introspection raised {type(e).__name__}: {e}", info)
            printed = ""
        R.count("schemas")
        # 1. type mapping
        for ci, c in enumerate(u["classes"]):
            gt = schema.type_map.get(f"C{ci}")
            if gt is None:
                continue
            for f in c["fields"]:
                name = aliaser(f["alias"] or f["name"])
                if name not in gt.fields:
                    R.violation(f"field {name} missing from GraphQL type C{ci}", dict(info, printed=printed))
                    continue
                items.append(f"(false, {ty_coq(f['ty'])}, DRequired, {coq_str(str(gt.fields[name].type))})")
                meta.append(dict(info, where=f"C{ci}.{name}", python_type=ty_src(f["ty"]), graphql_type=str(gt.fields[name].type)))
        q = schema.query_type.fields.get("echo")
        for pname, t, d in pmeta:
            an = aliaser(pname)
            if q is None or an not in q.args:
                R.violation(f"argument {an} missing from the echo field", dict(info, printed=printed))
                continue
            items.append(f"(true, {ty_coq(t)}, {d}, {coq_str(str(q.args[an].type))})")
            meta.append(dict(info, where=f"echo({an})", python_type=ty_src(t), default=d, graphql_type=str(q.args[an].type)))
        # 2. execution = serialize without omission
        for ci, v in values.items():
            sel = selection(u, ci, 2, aliaser)
            query = "{ " + aliaser(f"get_c{ci}") + " " + sel + " }"
            res = graphql.graphql_sync(schema, query)
            R.count("queries")
            R.note_case((ci, len(u["classes"][ci]["fields"]), aliaser_name, bool(res.errors)), sample=dict(query=query, data=res.data))
            if res.errors:
                R.violation(f"query fails: {res.errors[0]}", dict(info, query=query, value=repr(v)))
                continue
            want = {aliaser(f"get_c{ci}"): expected(u, ("obj", ci), v, 2, aliaser)}
            if res.data != want:
                R.violation("query result differs from serialize of the resolver's result (no omission, enums by name, "
                            "Undefined as null)", dict(info, query=query, value=repr(v), got=res.data, expected=want))
        # 3. arguments
        if pmeta:
            argument_checks(R, graphql, schema, u, pmeta, calls, aliaser, gen, info, rng)
        pyrun.drop_module(mod)
    flatten_and_null_probe(R)
    defaults_and_interfaces_probe(R)
    apischema.cache.reset()
    T = "bool * gty * gdefault * string"
    bad, errs = core.run_coq_shards("C19", HEADER, items,
                                    "(fun c : " + T + " => let '(input, t, d, s) := c in "
                                    "String.eqb (show_gql (if input then in_type t d else out_type t)) s)", item_type=T, shard=400)
    for k, e in errs:
        R.broken.append(f"coq evaluation failed (shard {k}): {e[-300:]}")
    for i in bad[:6]:
        R.violation("GraphQL type differs from the model of the type mapping (named type / list / non-null)", meta[i])
    R.hist["type_cases"] = len(items)
    R.hist["type_mismatches"] = len(bad)
    return R.finish(
        rule="1-3 dataclasses with 1-4 fields over int / float / str / bool / enums / nested and recursive objects / lists / "
             "Optional / Undefined unions, aliases, x aliaser in {camelCase, identity}: schema validation, introspection, "
             "print_schema; GraphQL type of every output field and of every argument (required / None default / serializable "
             "default) vs the model; a query selecting every field (depth 2) vs the expected data; an operation whose "
             "arguments are the fields of a class, called with valid, omitted and invalid arguments (wrong type, constraint "
             "violated): resolver invoked with the deserialized arguments, or not invoked and a GraphQL error")


def gql_literal(v):
    import enum
    if v is None:
        return "null"
    if isinstance(v, bool):
        return "true" if v else "false"
    if isinstance(v, enum.Enum):
        return v.name
    if isinstance(v, (int, float)):
        return repr(v)
    if isinstance(v, str):
        return json.dumps(v)
    if isinstance(v, list):
        return "[" + ", ".join(gql_literal(x) for x in v) + "]"
    if isinstance(v, dict):
        return "{" + ", ".join(f"{k}: {gql_literal(x)}" for k, x in v.items()) + "}"
    raise ValueError(v)


def to_input(u, t, v, aliaser):
    """python value -> GraphQL input literal structure"""
    from apischema import Undefined
    k = t[0]
    if v is None:
        return None
    if k in ("opt", "undef", "con"):
        return to_input(u, t[1], v, aliaser)
    if k == "list":
        return [to_input(u, t[1], x, aliaser) for x in v]
    if k == "obj":
        out = {}
        for f in u["classes"][t[1]]["fields"]:
            x = getattr(v, f["name"])
            if x is Undefined:
                continue
            out[aliaser(f["alias"] or f["name"])] = to_input(u, f["ty"], x, aliaser)
        return out
    return v


def argument_checks(R, graphql, schema, u, pmeta, calls, aliaser, gen, info, rng):
    from apischema import Undefined
    for trial in range(4):
        vals, ok = {}, True
        for pname, t, d in pmeta:
            if d != "DRequired" and rng.random() < 0.4:
                continue
            v = gen.value(t, 2)
            if v is FAIL:
                ok = False
                break
            if v is Undefined:
                continue
            vals[pname] = (t, v)
        if not ok:
            continue
        mode = rng.choice(["valid", "valid", "wrong_type", "constraint"])
        args = {aliaser(p): to_input(u, t, v, aliaser) for p, (t, v) in vals.items()}
        broken = None
        if mode == "wrong_type" and args:
            broken = rng.choice(list(args))
            args[broken] = {"zz": 1} if not isinstance(args[broken], dict) else 3
        elif mode == "constraint":
            cons = [p for p, (t, v) in vals.items() if t[0] == "con"]
            if not cons:
                continue
            broken = aliaser(cons[0])
            args[broken] = -5
        try:
            lit = ", ".join(f"{k}: {gql_literal(v)}" for k, v in args.items())
        except ValueError:
            continue
        query = "{ echo" + (f"({lit})" if lit else "") + " }"
        calls.clear()
        res = graphql.graphql_sync(schema, query)
        R.count("argument_calls:" + mode)
        if broken is None:
            if res.errors or len(calls) != 1:
                R.violation(f"valid arguments: errors {res.errors}, resolver invoked {len(calls)} time(s)", dict(info, query=query))
                continue
            got = calls[0]
            for p, (t, v) in vals.items():
                if got.get(p) != v or type(got.get(p)) is not type(v):
                    R.violation(f"argument {p}: the resolver received {got.get(p)!r}, deserialize gives {v!r}", dict(info, query=query))
        else:
            if not res.errors:
                R.violation(f"invalid argument {broken} accepted", dict(info, query=query, data=res.data))
            if calls:
                R.violation(f"the resolver was invoked although argument {broken} is invalid", dict(info, query=query))


FLAT_SRC = '''
from dataclasses import dataclass, field
from typing import Optional, List
from apischema.metadata import flatten

@dataclass
class Tag:
    name: str

@dataclass
class Leaf:
    leaf_value: int
    leaf_opt: Optional[str] = None
    tag: Optional[Tag] = None

@dataclass
class Middle:
    middle_value: str
    leaf: Leaf = field(metadata=flatten)

@dataclass
class Root:
    root_value: float
    middle: Middle = field(metadata=flatten)
    others: List[Leaf] = field(default_factory=list)

CALLS = []

def get_root() -> Root:
    return Root(1.5, Middle("m", Leaf(7, "x", Tag("t"))), [Leaf(1), Leaf(2, "y", Tag("u"))])

def shift(base: int, step_size: Optional[int] = 1, label: Optional[str] = "dflt", flag: Optional[bool] = None) -> str:
    CALLS.append((base, step_size, label, flag))
    return f"{base}/{step_size}/{label}/{flag}"
'''


def flatten_and_null_probe(R):
    """flattened fields (two levels) execute like serialize; an explicit null argument is passed as None"""
    import graphql
    import apischema.cache
    from apischema import serialize
    from apischema.graphql import graphql_schema
    apischema.cache.reset()
    mod = pyrun.exec_module(FLAT_SRC)
    info = dict(source=FLAT_SRC)
    try:
        schema = graphql_schema(query=[mod.get_root, mod.shift], aliaser=camel)
        errs = graphql.validate_schema(schema)
        if errs:
            R.violation(f"schema with flattened fields does not validate: {errs[0]}", info)
        q = "{ getRoot { rootValue middleValue leafValue leafOpt tag { name } others { leafValue leafOpt tag { name } } } }"
        res = graphql.graphql_sync(schema, q)
        R.count("flatten_probe")
        want = {"getRoot": serialize(mod.Root, mod.get_root(), aliaser=camel)}
        if res.errors or res.data != want:
            R.violation(f"query over flattened fields gives {res.data!r} / {res.errors!r}; serialize gives {want!r}", dict(info, query=q))
        # constraints attached to a parameter (parameters_metadata) are enforced like deserialize(..., schema=...)
        from apischema import schema as schema_, deserialize, ValidationError
        from apischema.graphql import Query
        seen = []

        def limited(x: int, names: list = ()) -> int:
            seen.append((x, names))
            return x
        limited.__annotations__["names"] = mod.__dict__["List"][str]
        sch2 = graphql_schema(query=[Query(limited, parameters_metadata={"x": schema_(min=0, max=10), "names": schema_(max_items=1)})],
                              aliaser=camel)
        for x, names in ((5, ["a"]), (-3, []), (11, []), (0, ["a", "b"]), (10, [])):
            seen.clear()
            q2 = "{ limited(x: %d, names: %s) }" % (x, json.dumps(names))
            res = graphql.graphql_sync(sch2, q2)
            R.count("parameter_schema_probe")
            ok = True
            try:
                deserialize(int, x, schema=schema_(min=0, max=10))
                deserialize(mod.__dict__["List"][str], names, schema=schema_(max_items=1))
            except ValidationError:
                ok = False
            if ok != (not res.errors) or (not ok and seen) or (ok and seen != [(x, names)]):
                R.violation(f"{q2}: deserialize with the parameter's schema {'accepts' if ok else 'rejects'}, the query gives errors "
                            f"{res.errors!r} and the resolver received {seen!r}", info)
        for args, expected in (("base: 3", (3, 1, "dflt", None)), ("base: 3, stepSize: null", (3, None, "dflt", None)),
                               ("base: 3, stepSize: 2, label: null", (3, 2, None, None)), ("base: 3, flag: null", (3, 1, "dflt", None)),
                               ("base: 3, flag: true, label: \"a\"", (3, 1, "a", True))):
            mod.CALLS.clear()
            res = graphql.graphql_sync(schema, "{ shift(" + args + ") }")
            R.count("null_argument_probe")
            if res.errors or mod.CALLS != [expected]:
                R.violation(f"shift({args}): the resolver received {mod.CALLS!r} (errors {res.errors!r}); deserialize of the "
                            f"arguments gives {expected!r}", info)
    except Exception as e:
        R.violation(f"{type(e).__name__} in the flatten / null argument probe: {e}", info)
    finally:
        pyrun.drop_module(mod)
        apischema.cache.reset()


DEFAULTS_SRC = '''
from dataclasses import dataclass, field
from typing import List, Optional
from apischema.graphql import interface

@dataclass
class Window:
    page_size: int = 5
    start_offset: int = 1

@dataclass
class Search:
    text: str
    window: Window = field(default_factory=lambda: Window(5, 1))      # object default of an input field

CALLS = []

def search(search_params: Search, other_window: Window = Window(7, 2)) -> int:      # object default of an argument
    CALLS.append((search_params, other_window))
    return other_window.page_size

@interface
@dataclass
class Node:
    id: int

@dataclass
class Stamped(Node):              # plain intermediate class
    created_at: str = "now"

@dataclass
class Article(Stamped):
    title: str = ""

@interface
@dataclass
class Media(Node):                # interface extending an interface
    url: str = ""

@dataclass
class Image(Media):
    width: int = 0

@dataclass
class Tag(Node):
    label: str = ""

VALUES = [Tag(1, "l"), Article(2, "2020", "t"), Image(3, "http://i", 640)]

def nodes() -> List[Node]:
    return VALUES

def medias() -> List[Media]:
    return [VALUES[2]]
'''


def defaults_and_interfaces_probe(R):
    """object defaults (of input fields and of resolver arguments) carry the aliased names the argument deserializer expects;
    every @interface among the ancestors of a class, at any depth, is an interface of its GraphQL type"""
    import graphql
    import apischema.cache
    from apischema import serialize, deserialize
    from apischema.graphql import graphql_schema
    apischema.cache.reset()
    mod = pyrun.exec_module(DEFAULTS_SRC)
    info = dict(source=DEFAULTS_SRC)
    try:
        schema = graphql_schema(query=[mod.search, mod.nodes, mod.medias], types=[mod.Tag, mod.Article, mod.Image], aliaser=camel)
        errs = graphql.validate_schema(schema)
        if errs:
            R.violation(f"schema with object defaults / inherited interfaces does not validate: {errs[0]}", info)
            return
        printed = graphql.print_schema(schema)
        for frag in ("window: WindowInput! = {pageSize: 5, startOffset: 1}", "otherWindow: WindowInput! = {pageSize: 7, startOffset: 2}"):
            R.count("object_default_probe")
            if frag not in printed:
                R.violation(f"the printed schema does not show the default {frag!r} (defaults are the serialized Python defaults "
                            "under the GraphQL aliaser)", dict(info, printed=printed))
        for q, want in (('{ search(searchParams: {text: "a"}) }', (mod.Search("a", mod.Window(5, 1)), mod.Window(7, 2))),
                        ('{ search(searchParams: {text: "a", window: {pageSize: 2}}, otherWindow: {startOffset: 9}) }',
                         (mod.Search("a", mod.Window(2, 1)), mod.Window(5, 9)))):
            mod.CALLS.clear()
            res = graphql.graphql_sync(schema, q)
            R.count("object_default_probe")
            if res.errors or mod.CALLS != [want]:
                R.violation(f"{q}: the resolver received {mod.CALLS!r} (errors {res.errors!r}); deserialize of the arguments, "
                            f"defaults included, gives {want!r}", dict(info, query=q))
        want_ifaces = {"Tag": ["Node"], "Article": ["Node"], "Image": ["Media", "Node"], "Media": ["Node"]}
        for name, ifs in want_ifaces.items():
            R.count("interface_probe")
            got = sorted(i.name for i in schema.type_map[name].interfaces)
            if got != ifs:
                R.violation(f"GraphQL type {name} implements {got}, its Python class has the interface ancestors {ifs}", info)
        q = "{ nodes { id ... on Tag { label } ... on Article { createdAt title } ... on Image { url width } } medias { id url ... on Image { width } } }"
        res = graphql.graphql_sync(schema, q)
        want = {"nodes": [serialize(type(v), v, aliaser=camel) for v in mod.VALUES],
                "medias": [serialize(mod.Image, mod.VALUES[2], aliaser=camel)]}
        R.count("interface_probe")
        if res.errors or res.data != want:
            R.violation(f"query over interface-typed fields gives {res.data!r} / {res.errors!r}; serialize gives {want!r}", dict(info, query=q))
    except Exception as e:
        R.violation(f"{type(e).__name__} in the object default / interface probe: {e}", info)
    finally:
        pyrun.drop_module(mod)
        apischema.cache.reset()


def replay(data):
    r = data["replay"]
    print(r.get("source"))
    print(json.dumps({k: v for k, v in r.items() if k != "source"}, indent=1, default=str)[:3000])
