"""C13 — union dispatch shortcuts equal try-each-alternative semantics (deserialization side)."""
from harness import core, gen_deser as G
from harness.deser_run import Producer, C_MODEL
from harness.descr import ty_src

NEEDED = ["Deser/Model.v", "Deser/Spec.v", "Deser/Run.v", "Deser/Unfold.v", "Deser/Loops.v", "Deser/Proofs.v", "Deser/Union.v"]


def union_root(rng, u, depth):
    for _ in range(20):
        t = G.gen_type(rng, u, max(1, depth))
        if t[0] == "union":
            return t
        if t[0] == "con" and t[2][0] == "union":
            return t
    return ("union", [("int",), ("str",)])


def py_equal(a, b):
    """Python equality, NaN being equal to itself"""
    import math
    if isinstance(a, float) and isinstance(b, float) and math.isnan(a) and math.isnan(b):
        return True
    if isinstance(a, (list, tuple)) and isinstance(b, (list, tuple)) and type(a) is type(b):
        return len(a) == len(b) and all(py_equal(x, y) for x, y in zip(a, b))
    if isinstance(a, dict) and isinstance(b, dict):
        return set(a) == set(b) and all(py_equal(a[k], b[k]) for k in a)
    if type(a).__name__ == "object" and type(a) is type(b) and not hasattr(a, "__dataclass_fields__"):
        return True     # the harness' opaque non-JSON objects (a fresh instance per call)
    if hasattr(a, "__dataclass_fields__") and type(a) is type(b):
        return all(py_equal(getattr(a, f), getattr(b, f)) for f in a.__dataclass_fields__)
    try:
        return a == b
    except Exception:
        return False


def run(tier):
    R = core.Run("C13", tier)
    R.trusted = core.TRUSTED_COMMON + ["model of UnionByTypeMethod / UnionMethod / OptionalMethod and of the strategy choice in "
                                       "DeserializationMethodVisitor.union (coq/Deser/Model.v)"]
    R.coq_build(NEEDED)
    n = dict(quick=(120, 6, 7), thorough=(1500, 8, 10))[tier]
    P = Producer(R, *n, depth=3, make_type=union_root)

    def try_each(U, c):
        """model-free: the union's outcome must be that of the first accepting alternative (implementation vs itself)"""
        t = c.t
        con = None
        if t[0] == "con":
            con, t = t[1], t[2]
        alts = t[1]
        first = None
        for a in alts:
            at = ("con", con, a) if con else a
            k, v, _ = G.observe(U, at, c.data, c.opts, c.root)
            if k == "crash":
                return
            if k == "ok":
                first = (a, v)
                break
        R.count("alts:%d" % len(alts))
        if c.kind == "crash":
            R.violation(f"union deserialization raised {c.payload}", c.to_json())
        elif first is None and c.kind == "ok":
            R.violation("a union accepted a datum that every alternative rejects", c.to_json())
        elif first is not None and c.kind != "ok":
            R.violation(f"a union rejected a datum accepted by its alternative {ty_src(first[0])}", c.to_json())
        elif first is not None and not py_equal(first[1], c.payload):
            R.violation(f"union result {c.payload!r} differs from the first accepting alternative's {first[1]!r}", c.to_json())

    P.hooks.append(try_each)
    P.run()
    from harness import probes
    probes.discriminator_probe(R, {'dispatch'})
    order_probe(R)
    unusual_alternatives_probe(R)
    bad_model = P.check("C13_model", C_MODEL)
    if bad_model and not R.violations:
        for c in bad_model[:5]:
            R.broken.append("correspondence model/implementation fails on " + repr(c.to_json())[:600]
                            + " model says: " + P.diagnose("C13_model", c))
    R.hist["model_mismatches"] = len(bad_model)
    return R.finish(
        rule="root types are unions of 2..4 alternatives (possibly under a constraint annotation) from the C01 grammar incl. "
             "alternatives sharing a JSON class, int/float/bool, Literal/Enum vs str/int, objects; with and without coercion; "
             "each case is checked against the implementation's own per-alternative outcomes and against the Coq model; "
             "distinct by (type shape, data class, outcome kind, error kinds, coerce, no_copy, additional_properties)")


UNUSUAL_SRC = '''
from dataclasses import dataclass, field
from typing import Annotated, Dict, List, Literal, Optional, Union
from apischema import alias, discriminator

class Slug(str):                       # subclasses of primitive types as alternatives
    pass

class Port(int):
    pass

@dataclass
class Bird:                            # the discriminator property is a field whose name differs from its alias
    kind: Literal["bird", "chick"] = field(metadata=alias("type"))
    wings: int = 2

@dataclass
class Fish:
    kind: Literal["fish"] = field(default="fish", metadata=alias("type"))

@dataclass
class Rock:                            # no field for the discriminator: its tag is the class name
    weight: int = 1

Thing = Annotated[Union[Bird, Fish, Rock], discriminator("type")]
'''


def unusual_alternatives_probe(R):
    """unions with subclasses of primitive types, and discriminated unions whose tag is read from a Literal field named otherwise
    than its alias: the union accepts a datum iff one alternative does, with the result of the first accepting one"""
    from harness import pyrun
    pyrun.ensure_repo_on_path()
    import apischema.cache
    from typing import Dict, List, Optional, Union
    from apischema import deserialize, serialize, ValidationError
    apischema.cache.reset()
    mod = pyrun.exec_module(UNUSUAL_SRC)
    Slug, Port = mod.Slug, mod.Port

    def out(tp, d, **kw):
        try:
            v = deserialize(tp, d, **kw)
            return ("ok", type(v).__name__, v)
        except ValidationError:
            return ("err",)
        except Exception as e:   # noqa
            return ("raise", f"{type(e).__name__}: {e}")
    try:
        unions = [(int, Slug), (Port, str), (Slug, type(None), List[int]), (Port, Slug), (float, Port, Slug), (Dict[str, int], Slug, Port),
                  (List[Slug], Slug), (bool, Port)]
        for alts in unions:
            U = Union[alts]
            for d in ("a-b", "", 3, 0, 2.5, True, None, [1], ["x"], {"k": 1}, {}):
                for kw in ({}, {"coerce": True}):
                    R.count("unusual_alternatives_probe")
                    got = out(U, d, **kw)
                    each = [out(a, d, **kw) for a in alts]
                    first = next((e for e in each if e[0] == "ok"), None)
                    info = dict(source=UNUSUAL_SRC, type=str(U), data=repr(d), options=kw)
                    if got[0] == "raise" or any(e[0] == "raise" for e in each):
                        R.violation(f"deserialize({U}, {d!r}) raised {got[1] if got[0] == 'raise' else each}", info)
                    elif kw:
                        continue        # under coercion the alternative chosen may differ (C14); only crashes are looked at here
                    elif (first is None) != (got[0] != "ok"):
                        R.violation(f"deserialize({U}, {d!r}) gives {got!r} but its alternatives alone give {each!r}", info)
                    elif first is not None and (got[1] != first[1] or got[2] != first[2]):
                        R.violation(f"deserialize({U}, {d!r}) = {got!r} differs from the first accepting alternative's {first!r}", info)
        # the tag of an alternative is the value of its Literal field found by *alias*
        for d, want in (({"type": "bird"}, mod.Bird("bird")), ({"type": "chick", "wings": 3}, mod.Bird("chick", 3)), ({"type": "fish"}, mod.Fish()),
                        ({"type": "Rock", "weight": 2}, mod.Rock(2)), ({"type": "Bird"}, None), ({"type": "rock"}, None), ({"kind": "bird"}, None)):
            R.count("unusual_alternatives_probe:discriminated")
            got = out(mod.Thing, dict(d))
            info = dict(source=UNUSUAL_SRC, type="Thing", data=repr(d))
            if want is None:
                if got[0] != "err":
                    R.violation(f"deserialize(Thing, {d!r}) gives {got!r}: no alternative has this tag", info)
            elif got[0] != "ok" or got[2] != want:
                R.violation(f"deserialize(Thing, {d!r}) gives {got!r} where the alternative alone gives {want!r}", info)
            elif deserialize(mod.Thing, serialize(mod.Thing, want)) != want:
                R.violation(f"{want!r} does not come back from serialize(Thing, ...) = {serialize(mod.Thing, want)!r}", info)
    finally:
        pyrun.drop_module(mod)
        apischema.cache.reset()


def order_probe(R):
    """Union[A, B] and Union[B, A] are equal typing objects: the cached method of the first one is served for both"""
    from harness import pyrun
    pyrun.ensure_repo_on_path()
    from typing import Union
    from apischema import deserialize
    pyrun.reset_caches()
    a = deserialize(Union[str, int], 0, coerce=True)
    b = deserialize(Union[int, str], 0, coerce=True)
    pyrun.reset_caches()
    b_cold = deserialize(Union[int, str], 0, coerce=True)
    R.count("order_probe")
    if repr(b) != repr(b_cold):
        if not R.known_match("union-order-cache"):
            R.violation(f"deserialize(Union[int, str], 0, coerce=True) returns {b!r} after Union[str, int] was used, "
                        f"{b_cold!r} on a cold cache", dict(first=repr(a), second=repr(b), cold=repr(b_cold)))


def replay(data):
    print(data)
