"""C17 — generated JSON Schemas are well-formed, closed and finite."""
import json

from harness import core, pyrun, gen_deser as G
from harness.core import coq_bool, coq_list, coq_nat
from harness.deser_run import Producer
from harness.descr import ty_coq, con_opt_coq, con_src
from harness.schema_coq import doc_coq, split_defs, Unsupported
from harness.props.c06 import no_fallback_universe
from harness.props.c18 import walk

NEEDED = ["Schema/Json.v", "Schema/Build.v", "Schema/Run.v", "Schema/Proofs.v", "Schema/Versions.v"]
HEADER_EXTRA = "From AV Require Import Schema.Json Schema.Build Schema.Run.\n"
VERSIONS = ["DRAFT_2020_12", "DRAFT_2019_09", "DRAFT_7", "OPEN_API_3_0", "OPEN_API_3_1"]


def named_universe(rng):
    u = no_fallback_universe(rng)
    for cid, c in enumerate(u["classes"]):
        r = rng.random()
        if r < 0.2:
            c["type_name"] = ("str", f"Custom{cid}")
        elif r < 0.3:
            c["type_name"] = ("factory", "F_")
        elif r < 0.42:
            c["type_name"] = ("none",)
    return u


def ext_name(u, cid):
    tn = u["classes"][cid].get("type_name")
    if not tn:
        return f"C{cid}"
    if tn[0] == "str":
        return tn[1]
    if tn[0] == "factory":
        return f"{tn[1]}C{cid}"
    return None


def rename_doc(doc, mapping):
    """rename the references / definitions of the implementation's document to the model's names (C<k>)"""
    def ren(s):
        if isinstance(s, list):
            return [ren(x) for x in s]
        if not isinstance(s, dict):
            return s
        out = {}
        for k, v in s.items():
            if k == "$ref" and isinstance(v, str):
                pre, name = v.rsplit("/", 1)
                out[k] = pre + "/" + mapping.get(name, name)
            elif k in ("$defs", "definitions"):
                out[k] = {mapping.get(n, n): ren(x) for n, x in v.items()}
            elif k in ("properties", "patternProperties"):
                out[k] = {n: ren(x) for n, x in v.items()}
            elif k in ("const", "enum", "default", "examples", "required", "dependentRequired"):
                out[k] = v
            else:
                out[k] = ren(v)
        return out
    return ren(doc)


def all_refs_in(doc):
    out = []
    walk(doc, lambda s, p: out.append((p, s["$ref"])) if "$ref" in s else None)
    return out


def run(tier):
    R = core.Run("C17", tier)
    R.trusted = core.TRUSTED_COMMON + [
        "Schema/Build.v models the reference extraction (refs.py counting) and the builder; compared structurally with the "
        "implementation (definitions included) on every generated type, with type_name overrides renamed to the model's names",
        "meta-schema validity is decided by jsonschema's check_schema for the dialect the document declares"]
    R.coq_build(NEEDED)
    pyrun.ensure_repo_on_path()
    import jsonschema
    from apischema import schema as schema_, type_name
    from apischema.json_schema import deserialization_schema, serialization_schema, definitions_schema, JsonSchemaVersion
    META = {"DRAFT_2020_12": jsonschema.Draft202012Validator, "DRAFT_2019_09": jsonschema.Draft201909Validator,
            "DRAFT_7": jsonschema.Draft7Validator}
    n = dict(quick=(70, 7, 1), thorough=(700, 9, 1))[tier]
    opts_gen = lambda r: dict(G.gen_opts(r, coerce=False), fall_back_on_default=False, all_refs=r.random() < 0.5)
    P = Producer(R, *n, depth=3, make_opts=opts_gen, roots=True, make_universe=named_universe)
    seen, scases, smeta = set(), [], []

    def hook(U, c):
        key = (c.uidx, repr(c.t), repr(sorted(c.opts.items())), repr(c.root))
        if key in seen:
            return
        seen.add(key)
        T = U.type(c.t)
        kw = dict(additional_properties=c.opts["additional_properties"], aliaser=G.ALIASERS[c.opts["aliaser"]][0],
                  all_refs=c.opts["all_refs"])
        if c.root is not None:
            kw["schema"] = eval(con_src(c.root), {"schema": schema_})
        info = dict(c.to_json(), all_refs=c.opts["all_refs"])
        docs, names = {}, {}
        for side, fn in (("deserialization", deserialization_schema), ("serialization", serialization_schema)):
            for vname in VERSIONS:
                V = getattr(JsonSchemaVersion, vname)
                try:
                    doc = json.loads(json.dumps(fn(T, version=V, with_schema=True, **kw)))
                except RecursionError:
                    R.violation(f"{side}_schema({vname}) does not terminate (RecursionError)", info)
                    continue
                except ValueError as e:
                    if "string-convertible" in str(e):
                        R.count("refused:non_string_keys")
                        continue
                    R.violation(f"{side}_schema({vname}) raised ValueError: {e}", info)
                    continue
                except TypeError as e:
                    if "needs a ref" in str(e):
                        R.count("refused:recursive_type_without_name")     # type_name(None) on a recursive class
                        continue
                    R.violation(f"{side}_schema({vname}) raised TypeError: {e}", info)
                    continue
                except Exception as e:
                    R.violation(f"{side}_schema({vname}) raised {type(e).__name__}: {e}", info)
                    continue
                docs[(side, vname)] = doc
                R.count(f"generated:{side}:{vname}")
                # 1. declared dialect and meta-schema
                if vname in META:
                    if doc.get("$schema") != V.schema:
                        R.violation(f"{vname}: $schema is {doc.get('$schema')!r}", dict(info, schema=doc))
                    try:
                        META[vname].check_schema(doc)
                    except Exception as e:
                        R.violation(f"{side}_schema({vname}) is not valid against its meta-schema: {str(e)[:300]}",
                                    dict(info, schema=doc, version=vname))
                # 2. closed: every $ref resolves to a definition emitted once under that name
                s, defs = split_defs(doc)
                if not V.defs:
                    try:
                        defs = json.loads(json.dumps(definitions_schema(**{side: [T]}, version=V, all_refs=c.opts["all_refs"],
                                                                        additional_properties=c.opts["additional_properties"],
                                                                        aliaser=kw["aliaser"])))
                    except ValueError as e:
                        if "string-convertible" in str(e):
                            R.count("refused:non_string_keys")
                        else:
                            R.violation(f"definitions_schema({vname}) raised ValueError: {e}", info)
                        continue
                    except Exception as e:
                        R.violation(f"definitions_schema({vname}) raised {type(e).__name__}: {e}", info)
                        continue
                else:
                    # definitions_schema returns the same definitions as the inline ones
                    try:
                        apart = json.loads(json.dumps(definitions_schema(**{side: [T]}, version=V, all_refs=c.opts["all_refs"],
                                                                         additional_properties=c.opts["additional_properties"],
                                                                         aliaser=kw["aliaser"])))
                        if apart != defs:
                            R.violation(f"{vname}: definitions_schema differs from the inline definitions of {side}_schema",
                                        dict(info, schema=doc, definitions=apart, version=vname))
                    except Exception as e:
                        R.violation(f"definitions_schema({vname}) raised {type(e).__name__}: {e}", info)
                # the extraction rule (which named types get a definition) is given by all_refs, not by the dialect
                names.setdefault(side, {})[vname] = sorted(defs)
                refs = all_refs_in(s) + [r for d in defs.values() for r in all_refs_in(d)]
                for path, ref in refs:
                    if not ref.startswith(V.ref_prefix) or ref[len(V.ref_prefix):] not in defs:
                        R.violation(f"{side}_schema({vname}): $ref {ref!r} at {path} resolves to no emitted definition",
                                    dict(info, schema=doc, version=vname))
                        break
        for side, by_version in names.items():
            ref_names = by_version.get("DRAFT_2020_12")
            for vname, got in by_version.items():
                if ref_names is not None and got != ref_names:
                    R.violation(f"{side}: with all_refs={c.opts['all_refs']} the definitions extracted under {vname} are {got}, under "
                                f"DRAFT_2020_12 {ref_names} (the explicit all_refs decides, not the version)", dict(info, version=vname))
                    break
        # 3. extraction rule and shape: the model of refs.py + schema.py (deserialization, 2020-12)
        doc = docs.get(("deserialization", "DRAFT_2020_12"))
        if doc is not None:
            mapping = {ext_name(c.u, cid): f"C{cid}" for cid in range(len(c.u["classes"])) if ext_name(c.u, cid)}
            unnamed = [cid for cid in range(len(c.u["classes"])) if ext_name(c.u, cid) is None]
            try:
                d2 = dict(doc)
                d2.pop("$schema", None)
                s, ds = doc_coq(rename_doc(d2, mapping))
                scases.append(f"(U{c.uidx}, {G.opts_coq(c.opts)}, {coq_list(map(coq_nat, unnamed))}, {coq_bool(c.opts['all_refs'])}, "
                              f"{con_opt_coq(c.root)}, {ty_coq(c.t)}, ({s}, {ds}))")
                smeta.append(dict(info, schema=doc, unnamed=unnamed))
            except Unsupported as e:
                R.count("schema_outside_model:" + str(e).split()[0])

    P.hooks.append(hook)
    P.run()
    collisions(R, jsonschema)
    method_conversion_refs_probe(R, jsonschema)
    union_type_list_probe(R, jsonschema)
    from harness import probes
    probes.discriminator_schema_probe(R, {'refs'})
    T1 = "univ * dopts * list nat * bool * option constraints * ty * (js * defs)"
    bad, errs = core.run_coq_shards("C17_refs", P.header() + HEADER_EXTRA, scases,
                                    "(fun c : " + T1 + " => let '(u, o, un, ar, root, t, impl) := c in schema_case_u u o un ar root t impl)",
                                    item_type=T1, shard=150)
    for k, e in errs:
        R.broken.append(f"coq evaluation failed (C17_refs shard {k}): {e[-300:]}")
    for i in bad[:6]:
        R.violation("the extracted references / definitions differ from the model of refs.py + schema.py", smeta[i], no_input=True)
    R.hist["reference_cases"] = len(scases)
    R.hist["reference_mismatches"] = len(bad)
    return R.finish(
        rule="C06 universes with type_name overrides (string, factory, None) x types of depth <= 3 x all_refs x aliaser x "
             "additional_properties x root schema, deserialization and serialization schemas and definitions_schema in the 5 "
             "versions: termination, declared $schema and meta-schema validity, every $ref resolves under the version's prefix, "
             "definitions_schema = inline definitions, extraction rule = model; plus name collisions, and discriminated unions "
             "(annotated and class-level, parent and children as roots): generation succeeds, meta-schema, refs resolve, no "
             "definition references itself on the same instance")


def collisions(R, jsonschema):
    """two distinct types sharing a name are refused rather than merged"""
    from dataclasses import dataclass
    from typing import List
    from apischema import type_name
    from apischema.json_schema import deserialization_schema, definitions_schema
    src = '''
from dataclasses import dataclass
from typing import List, Optional, NewType
from apischema import type_name
@type_name("Same")
@dataclass
class A:
    x: int
@type_name("Same")
@dataclass
class B:
    y: str
@dataclass
class Holder:
    a: A
    b: B
@dataclass
class Twice:
    a: A
    a2: List[A]
'''
    mod = pyrun.exec_module(src)
    for what, f in (("deserialization_schema(Holder)", lambda: deserialization_schema(mod.Holder, all_refs=True)),
                    ("definitions_schema([A, B])", lambda: definitions_schema(deserialization=[mod.A, mod.B], all_refs=True))):
        R.count("collision_probe")
        try:
            out = f()
            R.violation(f"{what}: two distinct types named 'Same' were merged instead of refused",
                        dict(source=src, result=json.loads(json.dumps(out))))
        except ValueError:
            pass
        except Exception as e:
            R.violation(f"{what}: raised {type(e).__name__} instead of refusing the name collision: {e}", dict(source=src))
    # the clash is refused also once the first owner of the name has been met several times
    src2 = src + '''
@dataclass
class Late:
    a: A
    a2: List[A]
    a3: Optional[A]
    b: B
'''
    mod2 = pyrun.exec_module(src2)
    for all_refs in (True, False):
        R.count("collision_probe")
        try:
            out = deserialization_schema(mod2.Late, all_refs=all_refs)
            R.violation("two distinct types named 'Same' were merged (the first one being referenced several times)",
                        dict(source=src2, result=json.loads(json.dumps(out))))
        except ValueError:
            pass
        except Exception as e:
            R.violation(f"raised {type(e).__name__} instead of refusing the name collision: {e}", dict(source=src2))
    pyrun.drop_module(mod2)
    multi_entry_definitions(R)
    out = deserialization_schema(mod.Twice, with_schema=False)
    if set(out.get("$defs", {})) != {"Same"}:
        R.violation("a named type used twice is not extracted under its type_name", dict(source=src, result=json.loads(json.dumps(out))))
    pyrun.drop_module(mod)


MULTI_SRC = '''
from dataclasses import dataclass
from typing import List
from apischema.conversions import Conversion

@dataclass
class Node:
    id: int
    children: List["Node"]

@dataclass
class Leaf:
    v: int

def node_id(node: Node) -> int:
    return node.id

node_as_id = Conversion(node_id, source=Node, target=int)
'''


def multi_entry_definitions(R):
    """definitions_schema with several entries, one of them with a conversion: same definitions as the inline $defs of each
    entry, closed, independent of the order of the entries"""
    from typing import List
    from apischema.json_schema import definitions_schema, serialization_schema
    mod = pyrun.exec_module(MULTI_SRC)
    Node, Leaf, conv = mod.Node, mod.Leaf, mod.node_as_id
    info = dict(source=MULTI_SRC)
    try:
        for all_refs in (True, False):
            R.count("multi_entry_definitions")
            inline = {}
            for tp in (Node, List[Leaf]):
                inline.update(json.loads(json.dumps(serialization_schema(tp, all_refs=all_refs, with_schema=False))).get("$defs", {}))
            entries = [(List[Node], conv), Node, List[Leaf]]
            defs = json.loads(json.dumps(definitions_schema(serialization=entries, all_refs=all_refs)))
            for name, d in inline.items():
                if defs.get(name) != d:
                    R.violation(f"definitions_schema lacks / changes the definition {name!r} of the inline $defs (an entry with a "
                                f"conversion precedes it), all_refs={all_refs}", dict(info, definitions=defs, inline=inline))
            for path, ref in [r for d in defs.values() for r in all_refs_in(d)]:
                if ref[len("#/$defs/"):] not in defs:
                    R.violation(f"definitions_schema: $ref {ref!r} resolves to no definition", dict(info, definitions=defs))
            swapped = json.loads(json.dumps(definitions_schema(serialization=list(reversed(entries)), all_refs=all_refs)))
            if swapped != defs:
                R.violation("definitions_schema depends on the order of its entries", dict(info, definitions=defs, swapped=swapped))
    except Exception as e:
        R.violation(f"{type(e).__name__} in the multi-entry definitions probe: {e}", info)
    finally:
        pyrun.drop_module(mod)


METHOD_CONV_SRC = '''
from dataclasses import dataclass, field
from typing import List, Optional
from apischema import serialized

@dataclass
class Tag:
    v: int

class Handle:                 # not serializable by itself
    def __init__(self, v): self.v = v

def handle_to_tag(h: Handle) -> Tag:
    return Tag(h.v)

@dataclass
class Once:
    @serialized(conversion=handle_to_tag)
    def other(self) -> Handle:
        return Handle(0)

@dataclass
class Shared:
    tag: Tag = field(default_factory=lambda: Tag(1))
    @serialized(conversion=handle_to_tag)
    def other(self) -> Handle:
        return Handle(0)

@dataclass
class Shared2:
    @serialized(conversion=handle_to_tag)
    def one(self) -> Handle:
        return Handle(1)
    @serialized(conversion=handle_to_tag)
    def two(self) -> Handle:
        return Handle(2)

class NodeHandle:
    def __init__(self, n): self.n = n

def handle_to_node(h: NodeHandle) -> Optional["Node2"]:
    return h.n

@dataclass
class Node2:
    value: int = 0
    @serialized(conversion=handle_to_node)
    def parent(self) -> NodeHandle:
        return NodeHandle(None)
'''


def union_type_list_probe(R, jsonschema):
    """unions whose alternatives have the same JSON type and no other keyword: the merged "type" list names it once (a list with
    a repeated name is invalid against every meta-schema)"""
    from typing import Any, Dict, List, Optional, Sequence, Tuple, Union
    from apischema.json_schema import deserialization_schema, serialization_schema, JsonSchemaVersion
    types = [Union[List[Any], int, List[Union[None, bool, Any]], None], Union[List[Any], Sequence[Any]],
             Union[Dict[str, Any], int, Dict[str, Any], str], Optional[Union[List[Any], Tuple[Any, ...]]],
             List[Union[List[Any], List[Any], None]], Dict[str, Union[int, List[Any], Sequence[Any]]]]
    for T in types:
        for fn in (deserialization_schema, serialization_schema):
            for vname, cls in (("DRAFT_2020_12", jsonschema.Draft202012Validator), ("DRAFT_2019_09", jsonschema.Draft201909Validator),
                               ("DRAFT_7", jsonschema.Draft7Validator)):
                R.count("union_type_list_probe")
                try:
                    doc = json.loads(json.dumps(fn(T, version=getattr(JsonSchemaVersion, vname))))
                    cls.check_schema(doc)
                except Exception as e:   # noqa
                    R.violation(f"{fn.__name__}({T}, {vname}) is not valid against its meta-schema: {str(e)[:200]}",
                                dict(type=str(T), version=vname))
                    break


def method_conversion_refs_probe(R, jsonschema):
    """the type reached through the conversion of a serialized method is the one the schema shows: it is counted (shared ->
    extracted once, used once -> inline) and followed (recursive only through it -> a reference, generation terminates)"""
    import apischema.cache
    from apischema import serialize
    from apischema.json_schema import serialization_schema, definitions_schema
    apischema.cache.reset()
    try:
        mod = pyrun.exec_module(METHOD_CONV_SRC)
    except Exception as e:   # noqa
        R.broken.append(f"method_conversion_refs_probe: module not accepted: {type(e).__name__}: {e}")
        return
    info = dict(source=METHOD_CONV_SRC)
    try:
        for cls, all_refs, want in ((mod.Once, False, []), (mod.Once, True, ["Once", "Tag"]), (mod.Shared, False, ["Tag"]),
                                    (mod.Shared2, False, ["Tag"]), (mod.Shared, True, ["Shared", "Tag"]),
                                    (mod.Node2, False, ["Node2"]), (mod.Node2, True, ["Node2"])):
            R.count("method_conversion_refs_probe")
            what = f"serialization_schema({cls.__name__}, all_refs={all_refs})"
            try:
                doc = json.loads(json.dumps(serialization_schema(cls, all_refs=all_refs)))
            except RecursionError:
                R.violation(f"{what} does not terminate (RecursionError): the class is recursive through the conversion of a "
                            "serialized method", info)
                continue
            except Exception as e:   # noqa
                R.violation(f"{what} raised {type(e).__name__}: {e}", info)
                continue
            s_, defs = split_defs(doc)
            if sorted(defs) != want:
                R.violation(f"{what} extracts {sorted(defs)}, expected {want} (a named type is extracted when all_refs, or when used "
                            "more than once / recursive, uses through the conversion of a serialized method included)", dict(info, schema=doc))
                continue
            for path, ref in all_refs_in(s_) + [r for d in defs.values() for r in all_refs_in(d)]:
                if not ref.startswith("#/$defs/") or ref[len("#/$defs/"):] not in defs:
                    R.violation(f"{what}: $ref {ref!r} at {path} resolves to no emitted definition", dict(info, schema=doc))
            try:
                jsonschema.Draft202012Validator.check_schema(doc)
                apart = json.loads(json.dumps(definitions_schema(serialization=[cls], all_refs=all_refs)))
                if apart != defs:
                    R.violation(f"definitions_schema differs from the inline definitions of {what}", dict(info, schema=doc, definitions=apart))
                out = serialize(cls, cls())
                if not jsonschema.Draft202012Validator(doc).is_valid(out):
                    R.violation(f"{what} rejects the serialized value {out!r}", dict(info, schema=doc))
            except Exception as e:   # noqa
                R.violation(f"{what}: {type(e).__name__}: {e}", dict(info, schema=doc))
    finally:
        pyrun.drop_module(mod)
        apischema.cache.reset()


def replay(data):
    r = data["replay"]
    for k in ("version", "python_source", "source", "python_type", "opts", "schema", "definitions", "result"):
        if k in r:
            print(f"--- {k}\n{r[k] if isinstance(r[k], str) else json.dumps(r[k])}")
