"""C05 — round trip: deserialize after serialize is the identity on values (and the dual on accepted data)."""
import dataclasses
import enum
import json

from harness import core, pyrun, gen_deser as G, gen_ser as S
from harness.ser_run import SProducer
from harness.deser_run import Producer
from harness.descr import data_real, ty_coq, value_coq, ty_src
from harness.props.c06 import in_domain, no_fallback_universe, has_set

NEEDED = ["Deser/Model.v", "Deser/Spec.v", "Ser/Model.v", "Ser/Spec.v", "Ser/RoundTrip.v", "Ser/RoundTripProofs.v", "Ser/RoundTripInd.v", "Ser/RoundTripGen.v",
          "Small/Aggregate.v", "Small/AggregateProofs.v", "Small/AggregateRT.v"]
HEADER_EXTRA = "From AV Require Import Ser.RoundTrip.\n"


def bijective_universe(rng):
    """no serialized method, no asymmetric skip, no fall_back_on_default"""
    u = S.gen_universe(rng, fields_set_p=0.15)
    for c in u["classes"]:
        c["methods"] = []
        c["depreq"] = []          # a dependency that serialize may omit (default, None, Undefined) is an asymmetric skip
        for f in c["fields"]:
            f.pop("skip_if", None)
            f["fallback"] = False
    return u


def json_kinds(t, u):
    k = t[0]
    if k == "con":
        return json_kinds(t[2], u)
    if k == "float":
        return {"float", "int"}          # a float position accepts integers
    if k in ("none", "bool", "int", "str"):
        return {k}
    if k == "any":
        return {"none", "bool", "int", "float", "str", "array", "object"}
    if k in ("lit", "enum"):
        vals = t[1] if k == "lit" else u["enums"][t[1]]
        return {"none" if v is None else "bool" if isinstance(v, bool) else "int" if isinstance(v, int) else "str" for v in vals}
    if k in ("coll", "tuple"):
        return {"array"}
    if k in ("map", "obj"):
        return {"object"}
    if k == "union":
        out = set()
        for a in t[1]:
            out |= json_kinds(a, u)
        return out
    return set()


def strip_con(t):
    while t[0] == "con":
        t = t[2]
    return tuple(t) if len(t) == 1 else t


def conflated_default(v, depth=0):
    """does an object of v hold, in a field with a default, a value equal to that default but of another class"""
    import dataclasses
    if depth > 30:
        return False
    if dataclasses.is_dataclass(v) and not isinstance(v, type):
        for f in dataclasses.fields(v):
            x = getattr(v, f.name, None)
            if f.default is not dataclasses.MISSING:
                try:
                    if x == f.default and not same_classes(x, f.default):
                        return True
                except Exception:
                    pass
            if conflated_default(x, depth + 1):
                return True
        return False
    if isinstance(v, tuple) and hasattr(v, "_fields"):
        defaults = getattr(type(v), "_field_defaults", {})
        for n in v._fields:
            x = getattr(v, n)
            if n in defaults and x == defaults[n] and not same_classes(x, defaults[n]):
                return True
            if conflated_default(x, depth + 1):
                return True
        return False
    if isinstance(v, dict):
        return any(conflated_default(x, depth + 1) for x in v.values())
    if isinstance(v, (list, tuple, set, frozenset)):
        return any(conflated_default(x, depth + 1) for x in v)
    return False


def data_cls(t):
    """factory.cls in apischema/deserialization: the class the datum must have, when the type fixes one"""
    k = t[0]
    if k in ("none", "bool", "int", "float", "str"):
        return k
    if k in ("coll", "tuple"):
        return "list"
    if k in ("map", "obj"):
        return "dict"
    if k == "con":
        return data_cls(t[2])
    if k == "union" and len(t[1]) == 1:
        return data_cls(t[1][0])
    return None


def abstract_cover(t):
    """non-array runtime classes that are instances of the abstract class the alternative is declared with"""
    k = t[0]
    if k == "coll":
        return {"collection": {"dict", "str", "tuple"}, "sequence": {"str", "tuple"}}.get(t[1], set())
    if k == "con":
        return abstract_cover(t[2])
    if k == "union":
        return set().union(*[abstract_cover(a) for a in t[1]]) if t[1] else set()
    return set()


def runtime_tags(t, u):
    k = t[0]
    if k == "map":
        return {"dict"}
    if k == "obj":
        return {"typeddict": {"dict"}, "namedtuple": {"tuple"}}.get(u["classes"][t[1]]["kind"], set())
    if k == "str":
        return {"str"}
    if k == "lit":
        return {"str"} if any(isinstance(v, str) for v in t[1]) else set()
    if k == "any":
        return {"dict", "str", "tuple"}
    if k == "con":
        return runtime_tags(t[2], u)
    if k == "union":
        return set().union(*[runtime_tags(a, u) for a in t[1]]) if t[1] else set()
    return set()


def unambiguous(t, u, seen=None):
    """every datum is accepted by at most one alternative of each union: needed for a union type to be bijective"""
    seen = set() if seen is None else seen
    k = t[0]
    if k == "union":
        acc = set()
        # by-class dispatch (UnionByTypeMethod: every alternative has a class, all distinct) sends an integer to the int
        # alternative when there is one: float then only takes floats.  A Literal / Enum / Any alternative has no class:
        # the alternatives are then tried in order and a float listed before int takes the integers
        clss = [data_cls(a) for a in t[1]]
        by_type = None not in clss and len(set(clss)) == len(clss)
        has_int = by_type and any(strip_con(a) == ("int",) for a in t[1])
        for a in t[1]:
            ks = json_kinds(a, u)
            if has_int and strip_con(a) == ("float",):
                ks = {"float"}
            if acc & ks:
                return False
            acc |= ks
        # serialization picks the first alternative whose class the value is an instance of: a dict, a str and a
        # NamedTuple are Collections (the last two Sequences as well) although they are not JSON arrays
        for i, a in enumerate(t[1]):
            for j, b in enumerate(t[1]):
                if i != j and abstract_cover(a) & runtime_tags(b, u):
                    return False
        return all(unambiguous(a, u, seen) for a in t[1])
    if k in ("coll", "con"):
        return unambiguous(t[2], u, seen)
    if k == "tuple":
        return all(unambiguous(a, u, seen) for a in t[1])
    if k == "map":
        return unambiguous(t[1], u, seen) and unambiguous(t[2], u, seen)
    if k == "obj":
        if t[1] in seen:
            return True
        seen.add(t[1])
        return all(unambiguous(f["ty"], u, seen) for f in u["classes"][t[1]]["fields"])
    return True


def default_py(d):
    return {"none": None, "emptylist": [], "undefined": None}.get(d[0], d[1] if len(d) > 1 else None)


def counts_properties(t, u, seen=None):
    """a minProperties / maxProperties constraint on an object: completion with defaults / omission changes the count"""
    seen = set() if seen is None else seen
    k = t[0]
    if k == "con":
        b = t[2]
        while b[0] == "con":
            b = b[2]
        if b[0] == "obj" and (t[1].get("min_props") is not None or t[1].get("max_props") is not None):
            return True
        return counts_properties(t[2], u, seen)
    if k == "coll":
        return counts_properties(t[2], u, seen)
    if k in ("tuple", "union"):
        return any(counts_properties(a, u, seen) for a in t[1])
    if k == "map":
        return counts_properties(t[2], u, seen)
    if k == "obj":
        if t[1] in seen:
            return False
        seen.add(t[1])
        return any(counts_properties(("con", f["con"], f["ty"]) if f.get("con") else f["ty"], u, seen)
                   for f in u["classes"][t[1]]["fields"])
    return False


def typed_universe(rng):
    u = G.gen_universe(rng, typed_defaults=True)
    for c in u["classes"]:
        for f in c["fields"]:
            f["fallback"] = False
            # a default violating the field's own constraints is not a value of the field: drop the constraints then
            if not f["required"] and f.get("con") and not S.satisfies(("con", f["con"], f["ty"]), default_py(f["default"]), u):
                f["con"] = None
    return u


def same_classes(a, b):
    if type(a) is not type(b):
        return False
    if isinstance(a, (list, tuple)):
        return len(a) == len(b) and all(same_classes(x, y) for x, y in zip(a, b))
    if isinstance(a, (set, frozenset)):
        return True          # elements are compared by ==; their classes are scalars
    if isinstance(a, dict):
        return a.keys() == b.keys() and all(same_classes(a[k], b[k]) for k in a)
    if dataclasses.is_dataclass(a) and not isinstance(a, type):
        return all(same_classes(getattr(a, f.name), getattr(b, f.name)) for f in dataclasses.fields(a))
    return True


def covers(d2, d):
    """d2 is d completed (with defaults): every key / item of d is in d2 with an equal value"""
    if isinstance(d, dict):
        return isinstance(d2, dict) and all(k in d2 and covers(d2[k], v) for k, v in d.items())
    if isinstance(d, list):
        return isinstance(d2, list) and len(d2) == len(d) and all(covers(x, y) for x, y in zip(d2, d))
    if isinstance(d, bool) or isinstance(d2, bool):
        return type(d) is type(d2) and d == d2
    return d == d2


def uses_fields_set(u):
    return any(c.get("fields_set") for c in u["classes"])


def run(tier):
    R = core.Run("C05", tier)
    R.trusted = core.TRUSTED_COMMON + [
        "the bijective fragment is decided by the generator: no serialized method, no skip(serialization_if), no "
        "fall_back_on_default, no pass_through, values carrying the classes deserialization builds and satisfying the "
        "constraints of their type",
        "equality of values is Python == plus equality of runtime classes at every position"]
    R.coq_build(NEEDED)
    pyrun.ensure_repo_on_path()
    from apischema import serialize, deserialize, ValidationError
    n = dict(quick=(70, 8, 4), thorough=(700, 10, 6))[tier]

    def make_opts(rng):
        o = S.gen_sopts(rng, pass_through=False)
        o["exclude_none"] = False        # dropping the None of a required field is an asymmetric skip
        return o
    P = SProducer(R, *n, depth=3, make_opts=make_opts, pass_through=False, make_universe=bijective_universe, canonical=True)
    items, meta = [], []

    def hook(U, c):
        if c.kind != "ok":
            return
        if not S.satisfies(c.t, c.value, c.u):
            R.count("excluded:value_violates_constraints")
            return
        if not unambiguous(c.t, c.u):
            R.count("excluded:ambiguous_union")
            return
        if counts_properties(c.t, c.u):
            R.count("excluded:property_count_constraint")
            return
        if conflated_default(c.value):
            # a field holding 1 where the default is True (equal for Python, another class): serialization skips it as a
            # default and deserialization restores the default itself - an asymmetric skip
            R.count("excluded:value_equal_to_default_of_another_class")
            return
        if c.opts["exclude_defaults"] and any(cl.get("depreq") for cl in c.u["classes"]):
            R.count("excluded:exclude_defaults_with_dependent_required")     # an asymmetric skip
            return
        T = U.type(c.t)
        al = G.ALIASERS[c.opts["aliaser"]][0]
        try:
            back = deserialize(T, c.payload, aliaser=al, additional_properties=c.opts["additional_properties"])
        except ValidationError as e:
            R.violation(f"deserialize rejects the output of serialize: {e.errors[:2]}", dict(c.to_json(), output=repr(c.payload)))
            return
        except Exception as e:
            R.violation(f"deserialize(serialize(v)) raised {type(e).__name__}: {e}", dict(c.to_json(), output=repr(c.payload)))
            return
        R.count("round_trips")
        if not (back == c.value and same_classes(back, c.value)):
            R.violation(f"deserialize(T, serialize(T, v)) = {back!r} differs from v (value or runtime class)",
                        dict(c.to_json(), output=repr(c.payload), back=repr(back)))
            return
        try:
            j = json.loads(json.dumps(c.payload))
            back2 = deserialize(T, j, aliaser=al, additional_properties=c.opts["additional_properties"])
            if not (back2 == c.value and same_classes(back2, c.value)):
                R.violation("the round trip through json.dumps / json.loads differs from v", dict(c.to_json(), output=repr(j), back=repr(back2)))
        except ValidationError as e:
            R.violation(f"deserialize rejects json.loads(json.dumps(serialize(v))): {e.errors[:2]}", dict(c.to_json(), output=repr(c.payload)))
        except (TypeError, ValueError) as e:
            R.violation(f"serialize output is not JSON-serializable: {e}", c.to_json())
        if not uses_fields_set(c.u) and not c.opts["exclude_unset"] is None:
            try:
                items.append(f"(U{c.uidx}, {S.sopts_coq(c.opts)}, {ty_coq(c.t)}, {value_coq(c.value, U.mod, sort_sets=False)})")
                meta.append(c.to_json())
            except ValueError:
                R.count("outside_fragment")

    P.hooks.append(hook)
    P.run()
    # dual: accepted data
    n2 = dict(quick=(50, 6, 6), thorough=(500, 8, 9))[tier]
    opts_gen = lambda r: dict(G.gen_opts(r, coerce=False), fall_back_on_default=False)
    PD = Producer(R, *n2, depth=3, make_opts=opts_gen, make_universe=typed_universe, matrix=1)

    def shadows_field(u, t, d, al, seen=0):
        """KF-C05: under additional_properties a TypedDict keeps its additional keys; one that is spelled like a field *name*
        (while the aliaser gives that field another external name) takes the place of the field in the result"""
        k = t[0]
        if seen > 6:
            return False
        if k in ("coll", "con"):
            inner = t[2]
            if k == "con":
                return shadows_field(u, inner, d, al, seen)
            return isinstance(d, list) and any(shadows_field(u, inner, x, al, seen) for x in d)
        if k == "tuple":
            return isinstance(d, list) and any(shadows_field(u, ti, x, al, seen) for ti, x in zip(t[1], d))
        if k == "union":
            return any(shadows_field(u, ti, d, al, seen) for ti in t[1])
        if k == "map":
            return isinstance(d, dict) and any(shadows_field(u, t[2], x, al, seen) for x in d.values())
        if k == "obj" and isinstance(d, dict):
            cl = u["classes"][t[1]]
            aliases = {al(f["alias"]) for f in cl["fields"]}
            if cl["kind"] == "typeddict" and any(key in {f["name"] for f in cl["fields"]} and key not in aliases for key in d):
                return True
            return any(al(f["alias"]) in d and shadows_field(u, f["ty"], d[al(f["alias"])], al, seen + 1) for f in cl["fields"])
        return False

    def set_dups_below_min(u, t, d, al, con=None, seen=0):
        """KF-C05-set-duplicates-min-items: a datum at a set position whose items, once duplicates are merged, are fewer
        than the minItems it satisfied as an array"""
        k = t[0]
        if seen > 6:
            return False
        if k == "con":
            return set_dups_below_min(u, t[2], d, al, dict(con or {}, **t[1]), seen)
        if k == "coll":
            if not isinstance(d, list):
                return False
            if t[1] in ("set", "frozenset", "abstractset") and con and con.get("min_items") is not None:
                distinct = []
                for x in d:
                    if not any(G.same_data(x, y) or (not isinstance(x, (list, dict)) and not isinstance(y, (list, dict)) and x == y)
                               for y in distinct):
                        distinct.append(x)
                if len(distinct) < con["min_items"] <= len(d):
                    return True
            return any(set_dups_below_min(u, t[2], x, al, None, seen) for x in d)
        if k == "tuple":
            return isinstance(d, list) and any(set_dups_below_min(u, ti, x, al, None, seen) for ti, x in zip(t[1], d))
        if k == "union":
            return any(set_dups_below_min(u, ti, d, al, con, seen) for ti in t[1])
        if k == "map":
            return isinstance(d, dict) and any(set_dups_below_min(u, t[2], x, al, None, seen) for x in d.values())
        if k == "obj" and isinstance(d, dict):
            cl = u["classes"][t[1]]
            return any(al(f["alias"]) in d and set_dups_below_min(u, f["ty"], d[al(f["alias"])], al, f.get("con"), seen + 1)
                       for f in cl["fields"])
        return False

    def dual(U, c):
        if c.kind != "ok" or not in_domain(c.data) or not unambiguous(c.t, c.u) or counts_properties(c.t, c.u):
            return
        T = U.type(c.t)
        al = G.ALIASERS[c.opts["aliaser"]][0]
        kw = dict(aliaser=al, additional_properties=c.opts["additional_properties"])
        try:
            d2 = serialize(T, c.payload, check_type=False, **kw)
            v2 = deserialize(T, d2, **kw)
        except Exception as e:
            if c.opts["additional_properties"] and shadows_field(c.u, c.t, data_real(c.data), al) \
                    and R.known_match("typeddict-extra-shadows-field"):
                return
            if isinstance(e, ValidationError) and "minItems" in str(e.errors) \
                    and set_dups_below_min(c.u, c.t, data_real(c.data), al) and R.known_match("set-duplicates-min-items"):
                return
            R.violation(f"serialize / re-deserialize of an accepted datum raised {type(e).__name__}: {e}", c.to_json())
            return
        R.count("dual_round_trips")
        if not v2 == c.payload:      # equal value: defaults are used as they are, whatever the class deserialization would build
            if c.opts["additional_properties"] and shadows_field(c.u, c.t, data_real(c.data), al) \
                    and R.known_match("typeddict-extra-shadows-field"):
                return
            R.violation("serialize(T, deserialize(T, d)) does not re-deserialize to an equal value", dict(c.to_json(), again=repr(d2)))
            return
        real = data_real(c.data)
        if not has_set(c.t, c.u) and not (c.opts["additional_properties"] and not typed_dict_only(c)):
            if not covers(d2, real):
                if c.opts["additional_properties"] and shadows_field(c.u, c.t, real, al) \
                        and R.known_match("typeddict-extra-shadows-field"):
                    return
                R.violation(f"serialize(T, deserialize(T, d)) = {d2!r} is not d completed with defaults", dict(c.to_json(), again=repr(d2)))

    def typed_dict_only(c):
        return all(cl["kind"] == "typeddict" for cl in c.u["classes"])

    PD.hooks.append(dual)
    PD.run()
    typeddict_shadow_probe(R)
    set_duplicates_probe(R)
    from harness import probes
    probes.late_conversion_round_trip(R)
    probes.flatten_probe(R)
    probes.aggregate_probe(R, aspects=("round_trip",), n_classes=30)
    probes.discriminator_round_trip_probe(R)
    probes.stdlib_round_trip_probe(R, aspects=("round_trip", "json"))
    T1 = "univ * sopts * ty * value"
    bad, errs = core.run_coq_shards("C05_model", P.header() + HEADER_EXTRA, items,
                                    "(fun c : " + T1 + " => let '(u, o, t, v) := c in roundtrip_case u o 60 40 t v)",
                                    item_type=T1, shard=250)
    for k, e in errs:
        R.broken.append(f"coq evaluation failed (C05_model shard {k}): {e[-300:]}")
    for i in bad[:5]:
        R.violation("the composition of the serialization and deserialization models is not the identity on this value",
                    meta[i], no_input=True)
    R.hist["model_round_trips"] = len(items)
    R.hist["model_mismatches"] = len(bad)
    # how many of the generated cases lie within the hypotheses of the proved theorem (C05_round_trip_checked)
    outside, errs = core.run_coq_shards("C05_hyps", P.header() + HEADER_EXTRA + "From AV Require Import Ser.RoundTripInd.\n", items,
                                        "(fun c : " + T1 + " => let '(u, o, t, v) := c in rt_hyps u o 40 t v)", item_type=T1, shard=250)
    for k, e in errs:
        R.broken.append(f"coq evaluation failed (C05_hyps shard {k}): {e[-300:]}")
    R.hist["cases_within_the_proved_theorem"] = len(items) - len(outside)
    # ... and of C05_round_trip_with_symmetric_skips (skip options, exclude_defaults, reordered fields)
    outside2, errs = core.run_coq_shards("C05_hyps_sym", P.header() + HEADER_EXTRA + "From AV Require Import Ser.RoundTripInd Ser.RoundTripGen.\n",
                                         items, "(fun c : " + T1 + " => let '(u, o, t, v) := c in rt_hyps u o 40 t v || rtg_hyps u o 40 t v)",
                                         item_type=T1, shard=250)
    for k, e in errs:
        R.broken.append(f"coq evaluation failed (C05_hyps_sym shard {k}): {e[-300:]}")
    R.hist["cases_within_the_theorems_incl_symmetric_skips"] = len(items) - len(outside2)
    return R.finish(
        rule="bijective universes (dataclass / NamedTuple / TypedDict, aliases, defaults, skip(serialization_default), "
             "none_as_undefined, Undefined fields, ordering, fields_set) x types of depth <= 3 x canonical well-typed values "
             "satisfying their constraints x exclude_defaults / exclude_unset x aliaser x additional_properties x "
             "no_copy, directly and through json.dumps / json.loads; dual: accepted data of the C06 stream, serialize then "
             "deserialize again, equal value and data covered")


def typeddict_shadow_probe(R):
    """directed probe of KF-C05-typeddict-extra-shadows-field: an additional property spelled like a field name"""
    pyrun.ensure_repo_on_path()
    from typing import TypedDict
    from apischema import deserialize, serialize, ValidationError

    class _TDreq(TypedDict):
        a: str

    class _TD(_TDreq, total=False):
        b: float
    al = lambda s: "p_" + s      # noqa
    kw = dict(aliaser=al, additional_properties=True)
    R.count("typeddict_shadow_probe")
    try:
        v = deserialize(_TD, {"p_a": "abc", "p_b": 2, "b": ""}, **kw)
    except ValidationError:
        return                      # rejected: one of the two possible repairs
    out = serialize(_TD, v, check_type=False, **kw)
    try:
        back = deserialize(_TD, out, **kw)
        if back == v:
            return                  # the round trip holds (the additional property was dropped or kept apart)
    except ValidationError:
        pass
    if not R.known_match("typeddict-extra-shadows-field"):
        R.violation(f"deserialize keeps the additional property 'b' in place of the field b: {v!r}; serialize gives {out!r}, "
                    "which does not deserialize back", dict(data={"p_a": "abc", "p_b": 2, "b": ""}))


def set_duplicates_probe(R):
    """directed probe of KF-C05-set-duplicates-min-items"""
    pyrun.ensure_repo_on_path()
    from typing import Annotated, FrozenSet
    from apischema import deserialize, serialize, schema, ValidationError
    T = Annotated[FrozenSet[int], schema(min_items=2)]
    R.count("set_duplicates_probe")
    try:
        v = deserialize(T, [1, 1])
    except ValidationError:
        return                      # duplicates rejected, or counted once: the datum is not accepted
    out = serialize(T, v, check_type=False)
    try:
        if deserialize(T, out) == v:
            return
    except ValidationError:
        pass
    if not R.known_match("set-duplicates-min-items"):
        R.violation(f"deserialize(Annotated[FrozenSet[int], schema(min_items=2)], [1, 1]) = {v!r}; serialize gives {out!r}, "
                    "which does not deserialize back", dict(data=[1, 1]))


def replay(data):
    r = data["replay"]
    for k in ("python_source", "python_type", "value", "data", "opts", "output", "back", "again"):
        if k in r:
            print(f"--- {k}\n{r[k] if isinstance(r[k], str) else json.dumps(r[k])}")
