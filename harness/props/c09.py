"""C09 — cached methods never go stale across configuration histories."""
import json
import os
import subprocess
from concurrent.futures import ThreadPoolExecutor

from harness import core

DRIVER = os.path.join(core.ROOT, "harness", "c09_driver.py")

BOOL_OPS = ["additional_properties", "camel_case", "coerce", "fall_back_on_default", "no_copy", "override_ctor",
            "exclude_none", "exclude_defaults", "ser_no_copy"]
OPS = ([["op", n, b] for n in BOOL_OPS for b in (True, False)] +
       [["op", "err_missing", "MISSING!"], ["op", "err_missing", "missing property"], ["op", "err_minimum", "too small {}"],
        ["op", "base_schema_type", "described"], ["op", "base_schema_type", ""],
        ["op", "add_deserializer", 2], ["op", "add_deserializer", 3], ["op", "add_str_deserializer"], ["op", "reset_deserializers"],
        ["op", "add_serializer", 10], ["op", "add_serializer", 20], ["op", "reset_serializer"],
        ["op", "set_fields_P", "x"], ["op", "set_fields_P", "xy"], ["op", "unset_fields_P"],
        ["op", "type_name_P", "PP"], ["op", "type_name_P", None], ["op", "schema_NT", 1], ["op", "schema_NT", 5],
        ["op", "schema_P", 1], ["op", "schema_P", 5],
        ["op", "class_aliaser_P", "k_"], ["op", "class_aliaser_P", "z_"], ["op", "order_P", -1], ["op", "order_P", 9],
        ["op", "validator_P", 3], ["op", "validator_P", 100], ["op", "dependent_required_P"],
        ["op", "serialized_P", "extra1"], ["op", "serialized_P", "extra2"],
        ["op", "set_fields_Node_flat"], ["op", "unset_fields_Node"], ["op", "set_fields_View_lazy"], ["op", "unset_fields_View"],
        ["op", "cache_set_size", 64], ["op", "cache_set_size", 2]])      # resizing the caches is not a configuration change
OBS = [["obs", "deserialize", "P", {"x": 5, "y": "s"}], ["obs", "deserialize", "P", {"x": "7"}], ["obs", "deserialize", "P", {"y": "s"}],
       ["obs", "deserialize", "P", {"k_x": 1}], ["obs", "deserialize", "P", {"x": 1, "zz": 2}], ["obs", "deserialize", "P", {"someName": 1}],
       ["obs", "deserialize", "Q", {"p": {"x": 50}, "ps": [{"x": 1}]}], ["obs", "deserialize", "Q", {}],
       ["obs", "deserialize", "Holder", {"o": 4}], ["obs", "deserialize", "Holder", {"o": "abc"}],
       ["obs", "deserialize", "WithNT", {"n": 2}], ["obs", "deserialize", "ListP", [{"x": 4}, {}]],
       ["obs", "serialize", "P", "P0"], ["obs", "serialize", "P", "P1"], ["obs", "serialize", "Q", "Q1"], ["obs", "serialize", "Holder", "H1"],
       ["obs", "dschema", "P"], ["obs", "sschema", "P"], ["obs", "dschema", "Q"], ["obs", "dschema", "Holder"], ["obs", "sschema", "Holder"],
       ["obs", "dschema", "WithNT"], ["obs", "deserialize", "Node", {"v": 1, "next": {"v": 2, "next": {"v": 3}}}],
       ["obs", "serialize", "Node", "N2"], ["obs", "deserialize", "Rounded", {"r": 1.5}], ["obs", "dschema", "Node"],
       ["obs", "deserialize", "View", {"x": 1, "y": "s"}], ["obs", "deserialize", "View", {"k_x": 1}], ["obs", "serialize", "View", "V1"],
       ["obs", "dschema", "View"], ["obs", "sschema", "View"]]


def run_history(hist, mode, idx):
    d = os.path.join(core.BUILD, "c09")
    os.makedirs(d, exist_ok=True)
    fn = os.path.join(d, f"h{idx}_{mode}.json")
    json.dump(hist, open(fn, "w"))
    env = dict(os.environ, PYTHONPATH=core.REPO, PYTHONHASHSEED="0")
    args = [core.PY, DRIVER, fn] + (["reset"] if mode == "reset" else [])
    p = subprocess.run(args, env=env, capture_output=True, text=True, timeout=120)
    if p.returncode != 0:
        return None, p.stderr[-500:]
    return json.loads(p.stdout.strip().split("\n")[-1]), ""


def gen_history(rng, length):
    h = []
    for _ in range(length):
        h.append(rng.choice(OPS) if rng.random() < 0.55 else rng.choice(OBS))
    if not any(e[0] == "obs" for e in h):
        h.append(rng.choice(OBS))
    return h


def cold_history(hist, i):
    """only the configuration events before position i, then the observation at i"""
    return [e for e in hist[:i] if e[0] == "op"] + [hist[i]]


def run(tier):
    R = core.Run("C09", tier)
    R.trusted = core.TRUSTED_COMMON + [
        "translator harness/tables.py: reads cache.py, settings.py and the registry modules with ast (fail-closed) and "
        "regenerates the wiring table the theorem C09_wiring_of_the_source_is_sound is proved against",
        "the matrix 'every registry / settings class can affect some observation' is hand-written",
    ]
    R.coq_build(["Gen/Tables.v", "Small/Cache.v", "Small/CacheGen.v"])
    rng = R.rng
    nh, maxlen = dict(quick=(70, 9), thorough=(700, 14))[tier]
    hists = []
    # bounded-exhaustive core: [obs; op; obs] for every op x a sample of observations (witness shape of a wiring failure)
    for op in OPS:
        for ob in rng.sample(OBS, 2 if tier == "quick" else 6):
            hists.append([ob, op, ob])
    # sensitive pairs: the observation reads what the operation changes
    node_obs = [o for o in OBS if o[2] == "Node"]
    for ob in node_obs:
        hists.append([["op", "set_fields_Node_flat"], ob, ["op", "unset_fields_Node"], ob])
    # lazily given fields (a factory reading the fields of another class) follow the configuration of that class
    view_obs = [o for o in OBS if o[2] == "View"]
    for ob in view_obs:
        for op2 in (["op", "set_fields_P", "x"], ["op", "class_aliaser_P", "k_"], ["op", "order_P", 9], ["op", "camel_case", True]):
            hists.append([["op", "set_fields_View_lazy"], ob, op2, ob, ["op", "unset_fields_P"], ob])
    # after the caches were resized, a configuration change must still invalidate what was computed (set_size installs new
    # cache objects: reset() has to reach them)
    for op2, ob in ((["op", "reset_serializer"], ["obs", "serialize", "Holder", "H1"]),
                    (["op", "add_serializer", 20], ["obs", "serialize", "Holder", "H1"]),
                    (["op", "reset_deserializers"], ["obs", "deserialize", "Holder", {"o": 4}]),
                    (["op", "camel_case", True], ["obs", "serialize", "P", "P1"]),
                    (["op", "set_fields_P", "x"], ["obs", "dschema", "P"])):
        hists.append([["op", "add_serializer", 10], ["op", "add_deserializer", 2], ["op", "cache_set_size", 64], ob, op2, ob])
    # a per-call default conversion is part of what the recursion analysis depends on
    for first in (["obs", "serialize_dc", "Tree", "T1", "int"], ["obs", "serialize_dc", "Tree", "T2", "int"]):
        hists.append([first, ["obs", "serialize_dc", "Tree", "T2", "tree"], ["obs", "serialize_dc", "Tree", "T2", "int"]])
    for b in (True, False):
        hists.append([["op", "override_ctor", b], ["obs", "deserialize", "Rounded", {"r": 1.5}], ["op", "override_ctor", not b],
                      ["obs", "deserialize", "Rounded", {"r": 1.5}]])
    hists += [gen_history(rng, rng.randint(3, maxlen)) for _ in range(nh)]
    jobs = []
    for i, h in enumerate(hists):
        jobs.append((i, h, "warm"))
        jobs.append((i, h, "reset"))
    results = {}

    def work(j):
        i, h, mode = j
        return (i, mode), run_history(h, mode, i)
    with ThreadPoolExecutor(max_workers=14) as ex:
        for k, v in ex.map(work, jobs):
            results[k] = v
    cold_jobs = []
    for i, h in enumerate(hists):
        warm, e1 = results[(i, "warm")]
        rst, e2 = results[(i, "reset")]
        if warm is None or rst is None:
            R.broken.append(f"history driver failed: {e1 or e2}")
            continue
        obs_idx = [k for k, e in enumerate(h) if e[0] == "obs"]
        # align outputs (op exceptions also produce an output entry)
        R.note_case((len(h), tuple(e[1] for e in h if e[0] == "op")), sample=dict(history=h, observations=warm))
        R.count("history_len:%d" % len(h))
        if warm != rst:
            k = next(k for k in range(len(warm)) if warm[k] != rst[k])
            R.violation(f"observation #{k} differs after cache.reset(): warm {json.dumps(warm[k])[:200]} vs reset {json.dumps(rst[k])[:200]}",
                        dict(history=h, warm=warm, after_reset=rst))
            continue
        # true cold start for the last observation (and one random other)
        picks = {obs_idx[-1]}
        if len(obs_idx) > 1:
            picks.add(rng.choice(obs_idx[:-1]))
        for k in picks:
            cold_jobs.append((i, k))
    outs_pos = {}
    for i, h in enumerate(hists):
        pos, n = {}, 0
        for k, e in enumerate(h):
            pos[k] = n
            n += 1 if e[0] == "obs" else 0
        outs_pos[i] = pos

    def cold(j):
        i, k = j
        return j, run_history(cold_history(hists[i], k), "warm", f"{i}_cold{k}")
    with ThreadPoolExecutor(max_workers=14) as ex:
        for (i, k), (out, err) in ex.map(cold, cold_jobs):
            if out is None:
                R.broken.append(f"cold driver failed: {err}")
                continue
            warm, _ = results[(i, "warm")]
            # outputs contain op exceptions too: compare the last entries that are observations
            warm_obs = [o for o in warm if o[0] != "opexc"]
            cold_obs = [o for o in out if o[0] != "opexc"]
            widx = outs_pos[i][k]
            R.count("cold_checks")
            if widx < len(warm_obs) and cold_obs and warm_obs[widx] != cold_obs[-1]:
                R.violation(f"observation {hists[i][k]} after the history differs from a cold start with the same configuration: "
                            f"{json.dumps(warm_obs[widx])[:200]} vs {json.dumps(cold_obs[-1])[:200]}",
                            dict(history=hists[i], index=k, warm=warm_obs[widx], cold=cold_obs[-1]))
    return R.finish(
        rule="histories over an alphabet of %d configuration operations (settings at the three levels, errors, base_schema, "
             "deserializer/serializer add + reset, set_object_fields set/None/lazy factory reading another class, type_name, schema(), class aliaser, order "
             "overriding, validator, dependent_required, serialized method) and %d observations (deserialize / serialize / both "
             "schemas on types sensitive to each registry): every [obs; op; obs] triple for every op, plus random histories; "
             "each history runs in a fresh interpreter warm, again with cache.reset() before every observation, and selected "
             "observations are re-computed in a fresh interpreter replaying only the configuration" % (len(OPS), len(OBS)),
        extra=dict(operations=len(OPS), observations=len(OBS)))


def replay(data):
    h = data["replay"]["history"]
    print(json.dumps(h))
    print("warm :", run_history(h, "warm", "replay")[0])
    print("reset:", run_history(h, "reset", "replay")[0])
