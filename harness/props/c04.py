"""C04 — serialization yields the JSON image prescribed by the type."""
from harness import core, gen_deser as G, gen_ser as S, pyrun
from harness.ser_run import SProducer, C_SMODEL

NEEDED = ["Ser/Model.v", "Ser/Spec.v", "Ser/Run.v", "Ser/Unfold.v", "Ser/Proofs.v", "Ser/RoundTripInd.v", "Ser/CompileProofs.v"]

C_IMAGE = ("(fun c : " + S.CASE_TYPE + " => let '(u, o, t, v, ob) := c in "
           "if (no_pass_through o && has_type u sfuel0 t v)%bool then "
           "(match ob with OOk out => image_matches (image u o sfuel0 t v) (Some out) | _ => false end) else true)")
C_TYPED = ("(fun c : " + S.CASE_TYPE + " => let '(u, o, t, v, ob) := c in has_type u sfuel0 t v)")
# the executable hypotheses of C04_compiled_serializer_computes_the_image_checked
C_THEOREM = ("(fun c : " + S.CASE_TYPE + " => let '(u, o, t, v, ob) := c in cc_hyps u o sfuel0 sfuel0 t v)")


def is_json(x):
    if x is None or isinstance(x, (bool, int, float, str)):
        return True
    if type(x) is list:
        return all(is_json(y) for y in x)
    if type(x) is dict:
        return all(type(k) is str and is_json(y) for k, y in x.items())
    return False


def enum_probe(R):
    """enums whose values are not all primitives: the value is serialized like any value of its class"""
    from enum import Enum
    from typing import List, Optional, Dict
    from apischema import serialize
    import apischema.cache
    src = "class Mixed(Enum): A = (1, 2); B = 'b'; C = 3\nclass Tuples(Enum): P = (1, (2, 3)); Q = ()\nclass Plain(Enum): X = 1; Y = 'y'"

    class Mixed(Enum):
        A = (1, 2)
        B = "b"
        C = 3

    class Tuples(Enum):
        P = (1, (2, 3))
        Q = ()

    class Plain(Enum):
        X = 1
        Y = "y"
    apischema.cache.reset()
    cases = [(Mixed, Mixed.A, [1, 2]), (Mixed, Mixed.B, "b"), (Mixed, Mixed.C, 3), (List[Mixed], [Mixed.A, Mixed.B], [[1, 2], "b"]),
             (Tuples, Tuples.P, [1, [2, 3]]), (Optional[Tuples], Tuples.Q, []), (Dict[str, Mixed], {"k": Mixed.A}, {"k": [1, 2]}),
             (Plain, Plain.X, 1), (List[Plain], [Plain.Y], ["y"])]
    for tp, v, want in cases:
        for no_copy in (True, False):
            R.count("enum_probe")
            try:
                got = serialize(tp, v, no_copy=no_copy)
            except Exception as e:
                R.violation(f"serialize({tp}, {v!r}) raised {type(e).__name__}: {e}", dict(source=src))
                continue
            if got != want or not is_json(got):
                R.violation(f"serialize({tp}, {v!r}) = {got!r}: expected the JSON form {want!r} of the member's value", dict(source=src))
    apischema.cache.reset()


def run(tier):
    R = core.Run("C04", tier)
    R.trusted = core.TRUSTED_COMMON + ["hand-written model of serialization/methods.py + __init__.py for check_type=False and "
                                       "fall_back_on_any=False (coq/Ser/Model.v); declarative image (coq/Ser/Spec.v); "
                                       "Mapping spelled Dict only; no conversions"]
    R.coq_build(NEEDED)
    n = dict(quick=(120, 6, 5), thorough=(1500, 8, 8))[tier]
    P = SProducer(R, *n, depth=3)

    def checks(U, c):
        pyrun.ensure_repo_on_path()
        from apischema import serialize
        if c.kind != "ok":
            R.violation(f"serialize raised {c.payload} on a value of the type", c.to_json())
            return
        pt = c.opts["pt"]
        if not any(pt.values()) and not is_json(c.payload):
            R.violation("output is not made of JSON types although no pass-through option is set", c.to_json())
            return
        # serialize(v) without a type == serialize(type(v), v) for (non generic) classes
        if c.t[0] == "obj" and c.u["classes"][c.t[1]]["kind"] != "typeddict" and not pt["any"]:
            kw = S.sopts_kwargs(c.opts)
            try:
                r2 = serialize(c.value, **kw)
            except Exception as e:
                R.violation(f"serialize(v) raised {type(e).__name__} while serialize(type(v), v) works", c.to_json())
                return
            if repr(r2) != repr(c.payload):
                R.violation(f"serialize(v) = {r2!r} differs from serialize(type(v), v) = {c.payload!r}", c.to_json())
                return
            R.count("untyped_pairs")

    P.hooks.append(checks)
    P.run()
    enum_probe(R)
    bad_img = P.check("C04_image", C_IMAGE)
    for c in bad_img[:10]:
        R.violation("serialize disagrees with the documented image (Coq spec) on a well-typed value", c.to_json())
    typed = len(P.cases) - len(P.check("C04_typed", C_TYPED))
    R.hist["well_typed_cases"] = typed
    S_HEADER_THM = "From AV Require Import Ser.RoundTripInd Ser.CompileProofs.\n"
    outside, errs = core.run_coq_shards("C04_hyps", P.header() + S_HEADER_THM, [c.coq for c in P.cases], C_THEOREM,
                                        item_type=S.CASE_TYPE, shard=250)
    for k, e in errs:
        R.broken.append(f"coq evaluation failed (C04_hyps shard {k}): {e[-300:]}")
    R.hist["cases_within_the_proved_theorem"] = len(P.cases) - len(outside)
    # pass_through.dataclasses resolves a nested, non recursive dataclass whose fields are all identities to the identity
    # at compile time; the model keeps a reference (SRec) there: those cases are outside the model
    def nested_passthrough(c):
        if not c.opts["pt"]["dataclasses"]:
            return False
        if c.t[0] != "obj" and "obj" in repr(c.t):
            return True       # a dataclass inside a collection / tuple / union
        return any("obj" in repr(f["ty"]) for cl in c.u["classes"] for f in cl["fields"])
    modelled = [c for c in P.cases if not nested_passthrough(c)]
    R.hist["outside_model:nested_dataclass_pass_through"] = len(P.cases) - len(modelled)
    bad_model = P.check("C04_model", C_SMODEL, subset=modelled)
    if bad_model and not R.violations:
        for c in bad_model[:5]:
            R.broken.append("correspondence model/implementation fails on " + repr(c.to_json())[:600]
                            + " model says: " + P.diagnose("C04_model", c))
    R.hist["model_mismatches"] = len(bad_model)
    R.hist["image_mismatches"] = len(bad_img)
    from harness import probes
    probes.stdlib_round_trip_probe(R, aspects=("json",))
    return R.finish(
        rule="random universes with serialization features (skip(serialization_if / serialization_default), "
             "none_as_undefined, Undefined-typed fields, serialized methods, with_fields_set classes with unset fields, "
             "order()), values generated from the type (incl. values equal to defaults, None, Undefined, unset fields), "
             "x exclude_none / exclude_defaults / exclude_unset / additional_properties / aliaser / no_copy / 2^5 pass-through "
             "flags; distinct by (type shape, outcome, options set, pass-through flags, value class)")


def replay(data):
    print(data)
