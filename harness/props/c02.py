"""C02 — rejections report every violation once, at its location in the input."""
import json

from harness import core, gen_deser as G
from harness.deser_run import Producer, C_MODEL
from harness.descr import data_real

NEEDED = ["Deser/ObjErrors.v", "Core/Errors.v", "Deser/Model.v", "Deser/Run.v", "Deser/Unfold.v", "Deser/ErrorsProofs.v"]


def multi_mutate(rng, u, t, opts):
    d = G.gen_valid(rng, u, t, 3, opts)
    for _ in range(rng.choice([1, 2, 2, 3, 4])):
        d = G.mutate(rng, d)
    return d


def loc_ok(data, loc, msg):
    """does the path exist in the data (the last key of a `missing property` entry must be absent)"""
    cur = data
    for i, k in enumerate(loc):
        last = i == len(loc) - 1
        if isinstance(cur, list):
            if not (isinstance(k, int) and 0 <= k < len(cur)):
                return False
            cur = cur[k]
        elif isinstance(cur, dict):
            if k not in cur:
                return last and msg.startswith("missing property")
            if last and msg.startswith("missing property"):
                return False
            cur = cur[k]
        else:
            return False
    return True


def key_order(k):
    return (not isinstance(k, int), k if isinstance(k, int) else str(k))


def same_loc_groups(errs):
    out = []
    for e in errs:
        if out and out[-1][0] == e["loc"]:
            out[-1][1].append(e["err"])
        else:
            out.append((e["loc"], [e["err"]]))
    return [(loc, sorted(msgs)) for loc, msgs in out]


def run(tier):
    R = core.Run("C02", tier)
    R.trusted = core.TRUSTED_COMMON + ["model of validation/errors.py (merge_errors, errors flattening) and of the error "
                                       "bookkeeping of every deserialization method"]
    R.coq_build(NEEDED)
    n = dict(quick=(120, 6, 7), thorough=(1500, 8, 10))[tier]
    P = Producer(R, *n, depth=3, make_data=multi_mutate, roots=True, matrix=2, coerce=False)

    def checks(U, c):
        if c.kind != "err":
            return
        errs = c.payload
        real = data_real(c.data) if not G.has_other(c.data) else None
        # (1) locations exist
        if real is not None:
            for e in errs:
                if not loc_ok(real, e["loc"], e["err"]):
                    R.violation(f"error entry {e} does not point into the input", c.to_json())
                    return
        # (2) deterministic
        k2, p2, _ = G.observe(U, c.t, c.data, c.opts, c.root)
        if k2 != "err" or p2 != errs:
            R.violation("two identical calls report different errors", c.to_json())
            return
        # (3) order: own messages first, then children in key order
        firsts = [tuple(e["loc"][:1]) for e in errs]
        seen_child = False
        prev = None
        for f in firsts:
            if f == ():
                if seen_child:
                    R.violation("a message of the root comes after a child's", c.to_json())
                    return
            else:
                seen_child = True
                if prev is not None and key_order(f[0]) < key_order(prev):
                    R.violation("children are not reported in key order", c.to_json())
                    return
                prev = f[0]
        # (4) no hiding between siblings: each element alone is rejected iff it has entries, with the same entries
        t = c.t
        while t[0] == "con":
            t = t[2]
        if real is None or c.root is not None:
            return
        subs = []
        if t[0] == "coll" and isinstance(c.data, list):
            subs = [(i, t[2], x) for i, x in enumerate(c.data)]
        elif t[0] == "tuple" and isinstance(c.data, list) and len(c.data) == len(t[1]):
            subs = [(i, tt, x) for i, (tt, x) in enumerate(zip(t[1], c.data))]
        elif t[0] == "map" and isinstance(c.data, dict):
            subs = [(k, t[2], x) for k, x in c.data.items()]
        if t[0] == "obj" and isinstance(c.data, dict) and not c.opts["coerce"]:
            # one entry per violated rule of the object: invalid value, missing required / dependently required, unexpected
            cl = c.u["classes"][t[1]]
            al = G.ALIASERS[c.opts["aliaser"]][0]
            aliases = {al(f["alias"]): f for f in cl["fields"]}
            expected = set()
            name_to_alias = {f["name"]: al(f["alias"]) for f in cl["fields"]}
            requiring = {}
            for src, tgts in cl.get("depreq", []):
                for tg in tgts:
                    requiring.setdefault(tg, set()).add(name_to_alias[src])
            for a, f in aliases.items():
                fb = (f.get("fallback") and not f["required"]) or c.opts["fall_back_on_default"]
                if a in c.data:
                    ft = ("con", f["con"], f["ty"]) if f.get("con") else f["ty"]
                    k3, p3, _ = G.observe(U, ft, c.data[a], c.opts, None)
                    if k3 == "err" and (f["required"] or not fb):
                        expected.add(a)
                        mine = [dict(loc=e["loc"][1:], err=e["err"]) for e in errs if e["loc"][:1] == [a]]
                        # messages at one location come from the alternatives of a union; their relative order depends on the
                        # strategy compiled (by-class dispatch reports the matching alternative first, the sequential
                        # strategy, used when an alternative is a lazily resolved recursive type, follows the declaration
                        # order): the statement fixes the order of locations, not of the messages sharing one
                        if same_loc_groups(mine) != same_loc_groups(p3):
                            R.violation(f"errors of field {a!r} differ: alone {p3}, in context {mine}", c.to_json())
                            return
                elif f["required"]:
                    expected.add(a)
                elif requiring.get(f["name"], set()) & set(c.data):
                    expected.add(a)
            if not c.opts["additional_properties"]:
                expected |= {k for k in c.data if k not in aliases}
            got = {e["loc"][0] for e in errs if e["loc"]}
            R.count("object_checks")
            if got != expected:
                R.violation(f"object entries {sorted(map(str, got))} differ from the violated rules {sorted(map(str, expected))}",
                            c.to_json())
                return
        for key, st, x in subs:
            k3, p3, _ = G.observe(U, st, x, c.opts, None)
            mine = [dict(loc=e["loc"][1:], err=e["err"]) for e in errs if e["loc"][:1] == [key]]
            if t[0] == "map":
                # the key itself is validated too: its messages sit at the same loc
                continue_ok = k3 != "err" or all(m in mine for m in p3)
                if k3 == "err" and not continue_ok:
                    R.violation(f"errors of the value at {key!r} are not all reported: alone {p3}, in context {mine}", c.to_json())
                    return
            elif k3 == "err" and mine != p3:
                R.violation(f"errors of the element at {key!r} differ: alone {p3}, in context {mine}", c.to_json())
                return
            elif k3 == "ok" and mine:
                R.violation(f"an entry points at the valid element {key!r}: {mine}", c.to_json())
                return
            R.count("sibling_checks")

    P.hooks.append(checks)
    P.run()
    bad_model = P.check("C02_model", C_MODEL)
    if bad_model and not R.violations:
        for c in bad_model[:5]:
            R.broken.append("correspondence model/implementation (full errors list) fails on " + repr(c.to_json())[:600]
                            + " model says: " + P.diagnose("C02_model", c))
    R.hist["model_mismatches"] = len(bad_model)
    R.hist["rejected_cases"] = sum(1 for c in P.cases if c.kind == "err")
    R.hist["max_entries"] = max([len(c.payload) for c in P.cases if c.kind == "err"] + [0])
    return R.finish(
        rule="data carrying k>=1 independent local mutations of a valid datum (type swap, drop / extra / renamed key, "
             "length change, constraint boundary), object field matrices (absent / valid / invalid per field); the full "
             "errors list (locs and messages, order of locs) is compared with the Coq model, and model-free checks verify "
             "that every loc exists, identical calls agree, order is own-messages-then-children-by-key, and every element "
             "of a container alone yields exactly its entries")


def replay(data):
    print(data)
