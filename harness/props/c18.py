"""C18 — schema dialect conversion preserves the set of valid instances."""
import json

from harness import core, pyrun, gen_deser as G
from harness.core import coq_bool
from harness.deser_run import Producer
from harness.descr import data_real, data_coq, con_src
from harness.schema_coq import doc_coq, split_defs, Unsupported
from harness.props.c06 import in_domain, make_data, no_fallback_universe

NEEDED = ["Schema/Json.v", "Schema/Build.v", "Schema/Run.v", "Schema/Versions.v", "Schema/VersionsProofs.v", "Schema/Oas30Proofs.v"]
HEADER_EXTRA = "From AV Require Import Schema.Json Schema.Build Schema.Run Schema.Versions Schema.VersionsProofs Schema.Oas30Proofs.\n"

VERSIONS = [("DRAFT_2019_09", "V2019"), ("DRAFT_7", "V7"), ("OPEN_API_3_0", "VOAS30"), ("OPEN_API_3_1", "VOAS31")]

# keywords outside each dialect's vocabulary (what the conversion must have removed / renamed), at every nesting level
FORBIDDEN = {
    "DRAFT_2019_09": {"prefixItems"},
    "DRAFT_7": {"prefixItems", "$defs", "dependentRequired"},
    "OPEN_API_3_0": {"prefixItems", "$defs", "dependentRequired", "propertyNames", "additionalItems", "const", "examples",
                     "unevaluatedProperties", "definitions"},
    "OPEN_API_3_1": set(),
}
SCHEMA_POS = {"items", "additionalItems", "additionalProperties", "propertyNames", "not"}
SCHEMA_LISTS = {"prefixItems", "anyOf", "allOf", "oneOf"}
SCHEMA_MAPS = {"properties", "patternProperties", "$defs", "definitions"}


def walk(s, f, path="#"):
    """call f(schema dict, path) on every subschema"""
    if not isinstance(s, dict):
        return
    f(s, path)
    for k, v in s.items():
        if k in SCHEMA_POS:
            if isinstance(v, list):
                for i, x in enumerate(v):
                    walk(x, f, f"{path}/{k}/{i}")
            else:
                walk(v, f, f"{path}/{k}")
        elif k in SCHEMA_LISTS:
            for i, x in enumerate(v):
                walk(x, f, f"{path}/{k}/{i}")
        elif k in SCHEMA_MAPS:
            for n, x in v.items():
                walk(x, f, f"{path}/{k}/{n}")


def vocabulary_errors(vname, doc, prefix):
    errs = []

    def chk(s, path):
        for k in s:
            if k in FORBIDDEN[vname]:
                errs.append(f"{path}: keyword {k!r} is not in the vocabulary of {vname}")
        if "$ref" in s:
            if not s["$ref"].startswith(prefix):
                errs.append(f"{path}: $ref {s['$ref']!r} does not use the prefix {prefix!r}")
            sib = sorted(set(s) - {"$ref", "definitions", "$defs"})
            if vname in ("DRAFT_7", "OPEN_API_3_0") and sib:
                errs.append(f"{path}: $ref has siblings {sib}, which {vname} ignores")
        if vname == "OPEN_API_3_0":
            if "type" in s and not isinstance(s["type"], str):
                errs.append(f"{path}: list-valued type {s['type']!r}")
            if {"type": "null"} in s.get("anyOf", ()):
                errs.append(f"{path}: null alternative left in anyOf")
            if s.get("type") == "null":
                errs.append(f"KNOWN:oas30-null-type {path}: type null is not expressible in OpenAPI 3.0")
        if vname in ("DRAFT_2019_09", "DRAFT_7") and "prefixItems" not in s and isinstance(s.get("items"), bool) \
                and "additionalItems" in s:
            errs.append(f"{path}: additionalItems next to a boolean items")
    walk(doc, chk)
    return errs


def oas30_to_2020(s):
    """the documented reading of an OpenAPI 3.0 schema object as a JSON Schema (nullable -> null allowed)"""
    if isinstance(s, list):
        return [oas30_to_2020(x) for x in s]
    if not isinstance(s, dict):
        return s
    out = {}
    for k, v in s.items():
        if k == "nullable":
            continue
        if k in SCHEMA_POS or k in SCHEMA_LISTS:
            out[k] = oas30_to_2020(v)
        elif k in SCHEMA_MAPS:
            out[k] = {n: oas30_to_2020(x) for n, x in v.items()}
        else:
            out[k] = v
    if s.get("nullable"):
        return {"anyOf": [out, {"type": "null"}]}
    return out


def drops(doc):
    """does the 2020-12 schema use a keyword OpenAPI 3.0 drops"""
    found = []
    walk(doc, lambda s, p: found.extend(k for k in s if k in ("dependentRequired", "propertyNames")))
    return bool(found)


EXTRA_TYPES = [
    # a list-valued type beside an anyOf (both must hold), a const beside an enum, null beside a constrained union
    ("Annotated[Union[int, str], schema(extra={'anyOf': [{'minimum': 0}, {'maxLength': 2}]})]",
     [1.5, 1, -1, "abc", "a", None, True, 2.0, -0.5]),
    ("Annotated[Literal[1], schema(extra={'enum': [1, 2]})]", [1, 2, 3, "1", None, 1.0]),
    ("Annotated[Union[int, str, None], schema(min=1, min_len=1)]", [None, 0, 1, "", "a", 1.5, []]),
    ("Annotated[Union[int, str, None], schema(extra={'anyOf': [{'minimum': 0}, {'maxLength': 2}]})]",
     [None, 1.5, 1, -1, "abc", "a"]),
    ("Optional[Annotated[Union[int, str], schema(extra={'anyOf': [{'minimum': 0}, {'maxLength': 2}]})]]",
     [None, 1.5, 1, -1, "abc", "a"]),
]


def oas30_extra_probe(R, scases, smeta, sdefs):
    """keywords added through schema(extra=...) can stand beside the ones to_open_api_3_0 rewrites (found while proving
    C18_openapi_3_0_same_instances: the proof needed side conditions the conversion itself could meet)"""
    pyrun.ensure_repo_on_path()
    import jsonschema
    import typing
    from apischema import schema
    from apischema.json_schema import deserialization_schema, JsonSchemaVersion
    env = dict(vars(typing), schema=schema)
    for k, (src, datas) in enumerate(EXTRA_TYPES):
        T = eval(src, env)
        base = json.loads(json.dumps(deserialization_schema(T, with_schema=False)))
        oas = json.loads(json.dumps(deserialization_schema(T, version=JsonSchemaVersion.OPEN_API_3_0, with_schema=False)))
        errs = [e for e in vocabulary_errors("OPEN_API_3_0", oas, "#/components/schemas/") if not e.startswith("KNOWN:")]
        for err in errs[:1]:
            R.violation(f"OPEN_API_3_0: {err}", dict(python_type=src, version="OPEN_API_3_0", schema=oas))
        mapped = oas30_to_2020(oas)
        for d in datas:
            ref = jsonschema.Draft202012Validator(base).is_valid(d)
            got = jsonschema.Draft201909Validator(mapped).is_valid(d)
            R.count("oas30_extra_probe")
            if ref != got:
                R.violation(f"OPEN_API_3_0 schema (documented mapping) {'accepts' if got else 'rejects'} data that the "
                            f"2020-12 schema {'accepts' if ref else 'rejects'}",
                            dict(python_type=src, data=d, version="OPEN_API_3_0", schema=oas, schema_2020_12=base))
                break
        try:
            s0n, d0 = doc_coq(base, keep_annot=True, no_marker=True)
            sv, dv = doc_coq(oas, keep_annot=True)
            sdefs.append(f"Definition SX{k}_n : js := {s0n}.\nDefinition DX{k} : defs := {d0}.\n"
                         f"Definition SX{k}_VOAS30 : js := {sv}.\nDefinition DX{k}_VOAS30 : defs := {dv}.")
            scases.append(f"(VOAS30, SX{k}_n, DX{k}, SX{k}_VOAS30, DX{k}_VOAS30)")
            smeta.append(dict(python_type=src, version="OPEN_API_3_0", schema_2020_12=base, schema=oas))
        except Unsupported as e:
            R.count("schema_outside_model:" + str(e).split()[0])


def run(tier):
    R = core.Run("C18", tier)
    R.trusted = core.TRUSTED_COMMON + [
        "Schema/Versions.v is a hand-written model of json_schema/versions.py; compared structurally with the implementation's "
        "output for every version on every generated type",
        "per-dialect validation rules = the shared keyword semantics of Schema/Json.v + '$ref ignores its siblings' for draft-07 "
        "/ OpenAPI 3.0 + nullable; compared with jsonschema's Draft7Validator / Draft201909Validator on every case; OpenAPI 3.0 "
        "has no independent validator here and is read through its documented mapping (nullable -> anyOf null)"]
    R.coq_build(NEEDED)
    pyrun.ensure_repo_on_path()
    import jsonschema
    from apischema import schema as schema_
    from apischema.json_schema import deserialization_schema, definitions_schema, JsonSchemaVersion
    VALIDATORS = {"DRAFT_2019_09": jsonschema.Draft201909Validator, "DRAFT_7": jsonschema.Draft7Validator,
                  "OPEN_API_3_1": jsonschema.Draft202012Validator}
    n = dict(quick=(60, 6, 6), thorough=(600, 8, 9))[tier]
    opts_gen = lambda r: dict(G.gen_opts(r, coerce=False), fall_back_on_default=False, all_refs=r.random() < 0.5)
    P = Producer(R, *n, depth=3, make_opts=opts_gen, make_data=make_data, roots=True, make_universe=no_fallback_universe)
    schemas, sdefs, scases, smeta, vcases, vmeta = {}, [], [], [], [], []

    def build_docs(U, c):
        T = U.type(c.t)
        kw = dict(additional_properties=c.opts["additional_properties"], aliaser=G.ALIASERS[c.opts["aliaser"]][0],
                  all_refs=c.opts["all_refs"], with_schema=False)
        if c.root is not None:
            kw["schema"] = eval(con_src(c.root), {"schema": schema_})
        docs = {}
        base = json.loads(json.dumps(deserialization_schema(T, version=JsonSchemaVersion.DRAFT_2020_12, **kw)))
        docs["DRAFT_2020_12"] = base
        for vname, _ in VERSIONS:
            V = getattr(JsonSchemaVersion, vname)
            d = json.loads(json.dumps(deserialization_schema(T, version=V, **kw)))
            if not V.defs:        # OpenAPI: the definitions are generated apart
                comps = definitions_schema(deserialization=[T], version=V, all_refs=c.opts["all_refs"],
                                           additional_properties=c.opts["additional_properties"],
                                           aliaser=G.ALIASERS[c.opts["aliaser"]][0])
                docs[vname + ":components"] = json.loads(json.dumps(comps))
            docs[vname] = d
        return docs

    def hook(U, c):
        key = (c.uidx, repr(c.t), repr(sorted(c.opts.items())), repr(c.root))
        if key not in schemas:
            ent = dict(idx=len(schemas), docs=None)
            try:
                ent["docs"] = build_docs(U, c)
            except ValueError as e:
                if "string-convertible" not in str(e):
                    R.violation(f"schema generation raised ValueError: {e}", c.to_json())
            except Exception as e:
                R.violation(f"schema generation raised {type(e).__name__}: {e}", c.to_json())
            schemas[key] = ent
            if ent["docs"]:
                docs = ent["docs"]
                try:
                    s0, d0 = doc_coq(docs["DRAFT_2020_12"], keep_annot=True)
                    s0n, _ = doc_coq(docs["DRAFT_2020_12"], keep_annot=True, no_marker=True)
                    sdefs.append(f"Definition S{ent['idx']} : js := {s0}.\nDefinition S{ent['idx']}_n : js := {s0n}.\n"
                                 f"Definition D{ent['idx']} : defs := {d0}.")
                    ent["coq"] = True
                    for vname, vcoq in VERSIONS:
                        sv, dv = doc_coq(docs[vname], keep_annot=True, external_defs=docs.get(vname + ":components"))
                        sdefs.append(f"Definition S{ent['idx']}_{vcoq} : js := {sv}.\nDefinition D{ent['idx']}_{vcoq} : defs := {dv}.")
                        base = f"S{ent['idx']}_n" if vname.startswith("OPEN_API") else f"S{ent['idx']}"
                        scases.append(f"({vcoq}, {base}, D{ent['idx']}, S{ent['idx']}_{vcoq}, D{ent['idx']}_{vcoq})")
                        smeta.append(dict(c.to_json(), version=vname, schema_2020_12=docs["DRAFT_2020_12"], schema=docs[vname]))
                except Unsupported as e:
                    ent["coq"] = False
                    R.count("schema_outside_model:" + str(e).split()[0])
                for vname, _ in VERSIONS:
                    V = getattr(JsonSchemaVersion, vname)
                    errs = vocabulary_errors(vname, docs[vname], V.ref_prefix)
                    for comp in docs.get(vname + ":components", {}).values():
                        errs += vocabulary_errors(vname, comp, V.ref_prefix)
                    known = [e for e in errs if e.startswith("KNOWN:")]
                    for e in known[:1]:
                        R.known_match(e.split()[0][6:])
                    for err in [e for e in errs if not e.startswith("KNOWN:")][:2]:
                        R.violation(f"{vname}: {err}", dict(c.to_json(), version=vname, schema=docs[vname]))
                    R.count("vocabulary_checked:" + vname)
                    # definitions shared by deserialization and serialization go through the same conversion
                    try:
                        both = json.loads(json.dumps(definitions_schema(
                            deserialization=[U.type(c.t)], serialization=[U.type(c.t)], version=V, all_refs=True,
                            additional_properties=c.opts["additional_properties"], aliaser=G.ALIASERS[c.opts["aliaser"]][0])))
                        errs2 = [e for comp in both.values() for e in vocabulary_errors(vname, comp, V.ref_prefix) if not e.startswith("KNOWN:")]
                        for err in errs2[:1]:
                            R.violation(f"{vname}: definitions_schema(deserialization=[T], serialization=[T]): {err}",
                                        dict(c.to_json(), version=vname, definitions=both))
                    except (TypeError, ValueError):
                        R.count("definitions_both_sides_refused")       # different schemas for the two directions, non-string keys
                    if vname in VALIDATORS:
                        try:
                            VALIDATORS[vname].check_schema(to_resolvable(with_components(docs, vname), vname))
                        except Exception as e:
                            R.violation(f"{vname}: the schema is not valid against the dialect's meta-schema: {str(e)[:200]}",
                                        dict(c.to_json(), version=vname, schema=docs[vname]))
        ent = schemas[key]
        if not ent["docs"] or not in_domain(c.data):
            return
        docs = ent["docs"]
        real = data_real(c.data)
        ref = jsonschema.Draft202012Validator(docs["DRAFT_2020_12"]).is_valid(real)
        for vname, vcoq in VERSIONS:
            doc = with_components(docs, vname)
            if vname == "OPEN_API_3_0":
                body, comps = split_defs(doc)
                mapped = dict(oas30_to_2020(body))
                if comps:         # the components stay at the root of the document, whatever wraps the (nullable) schema
                    mapped["components"] = {"schemas": {n: oas30_to_2020(x) for n, x in comps.items()}}
                try:
                    got = jsonschema.Draft201909Validator(mapped).is_valid(real)
                except Exception as e:
                    R.violation(f"OPEN_API_3_0 schema cannot be validated through its documented mapping: {type(e).__name__}: "
                                f"{str(e)[:200]}", dict(c.to_json(), version=vname, schema=doc))
                    continue
                if got != ref and not (drops(docs["DRAFT_2020_12"]) and got and not ref):
                    R.violation(f"OPEN_API_3_0 schema (documented mapping) {'accepts' if got else 'rejects'} data that the "
                                f"2020-12 schema {'accepts' if ref else 'rejects'}",
                                dict(c.to_json(), version=vname, schema=doc, schema_2020_12=docs["DRAFT_2020_12"]))
            else:
                try:
                    got = VALIDATORS[vname](to_resolvable(doc, vname)).is_valid(real)
                except Exception as e:       # e.g. a $ref pointing to nowhere in the converted document
                    R.violation(f"{vname} schema cannot be used by the dialect's validator: {type(e).__name__}: {str(e)[:200]}",
                                dict(c.to_json(), version=vname, schema=doc, schema_2020_12=docs["DRAFT_2020_12"]))
                    continue
                if got != ref:
                    R.violation(f"{vname} schema {'accepts' if got else 'rejects'} data that the 2020-12 schema "
                                f"{'accepts' if ref else 'rejects'}",
                                dict(c.to_json(), version=vname, schema=doc, schema_2020_12=docs["DRAFT_2020_12"]))
            R.count(f"{vname}:{'valid' if got else 'invalid'}")
            if ent.get("coq"):
                vcases.append(f"({vcoq}, S{ent['idx']}_{vcoq}, D{ent['idx']}_{vcoq}, {data_coq(c.data)}, {coq_bool(got)})")
                vmeta.append(dict(c.to_json(), version=vname, schema=doc, oracle=got))

    def with_components(docs, vname):
        comps = docs.get(vname + ":components")
        return dict(docs[vname], **{"$defs": comps}) if comps else docs[vname]

    def to_resolvable(doc, vname):
        """OpenAPI documents keep their definitions under #/components/schemas"""
        if vname.startswith("OPEN_API") and "$defs" in doc:
            doc = dict(doc)
            doc["components"] = {"schemas": doc.pop("$defs")}
        return doc

    def ref_exclusive_py(doc):
        return doc        # Draft201909Validator honours siblings of $ref; isolate_ref has already moved them into allOf

    P.hooks.append(hook)
    P.run()
    oas30_extra_probe(R, scases, smeta, sdefs)
    header = P.header() + HEADER_EXTRA + "\n".join(sdefs) + "\n"
    # 1. the model of versions.py applied to the 2020-12 schema = the implementation's schema for the version
    T1 = "version * js * defs * js * defs"
    bad, errs = core.run_coq_shards("C18_conv", header, scases,
                                    "(fun c : " + T1 + " => let '(v, s, ds, sv, dsv) := c in "
                                    "js_eqb (convert v s) sv && defs_eqb (convert_defs v ds) dsv)", item_type=T1, shard=200)
    for k, e in errs:
        R.broken.append(f"coq evaluation failed (C18_conv shard {k}): {e[-300:]}")
    for i in bad[:6]:
        R.violation(f"{smeta[i]['version']}: the implementation's schema differs from the model of versions.py applied to the "
                    "2020-12 schema", smeta[i], no_input=True)
    # 1b. OpenAPI 3.0: schemas within the (executable) hypotheses of C18_openapi_3_0_same_instances
    oas = [c for c in scases if c.startswith("(VOAS30,")]
    outside, errs = core.run_coq_shards("C18_oas30_hyps", header, oas,
                                        "(fun c : " + T1 + " => let '(v, s, ds, sv, dsv) := c in "
                                        "ok30 s && forallb okd30 (map snd ds))", item_type=T1, shard=200)
    for k, e in errs:
        R.broken.append(f"coq evaluation failed (C18_oas30_hyps shard {k}): {e[-300:]}")
    R.hist["oas30_schemas"] = len(oas)
    R.hist["oas30_schemas_within_the_proved_theorem"] = len(oas) - len(outside)
    R.hist["conversion_cases"] = len(scases)
    R.hist["conversion_mismatches"] = len(bad)
    # 2. the per-dialect validation rules of the model = the oracle validators
    T2 = "version * js * defs * pyval * bool"
    bad2, errs = core.run_coq_shards("C18_valid", header, vcases,
                                     "(fun c : " + T2 + " => let '(v, s, ds, d, b) := c in Bool.eqb (jvalid_v v true ds fuel_s s d) b)",
                                     item_type=T2, shard=400)
    for k, e in errs:
        R.broken.append(f"coq evaluation failed (C18_valid shard {k}): {e[-300:]}")
    for i in bad2[:5]:
        R.broken.append("the dialect validation model disagrees with the oracle on " + json.dumps(vmeta[i])[:700])
    R.hist["validator_cases"] = len(vcases)
    R.hist["validator_mismatches"] = len(bad2)
    return R.finish(
        rule="the C06 type space (universes, collections, tuples, mappings with constrained keys, unions, Optional, Literal, "
             "Enum, constraints, recursive classes, root schema) x all_refs x aliaser x additional_properties, for each of "
             "DRAFT_2019_09, DRAFT_7, OPEN_API_3_0, OPEN_API_3_1: vocabulary and $ref prefix at every nesting level, meta-schema "
             "validity, structural equality with the model conversion, and the same verdict as the 2020-12 schema on the C06 "
             "data stream under the dialect's own validator")


def replay(data):
    r = data["replay"]
    for k in ("version", "python_source", "python_type", "data", "schema_2020_12", "schema"):
        if k in r:
            print(f"--- {k}\n{r[k] if isinstance(r[k], str) else json.dumps(r[k])}")
