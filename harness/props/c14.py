"""C14 — coercion only widens acceptance, per the documented table."""
from harness import core, gen_deser as G, pyrun
from harness.deser_run import Producer, C_MODEL, Case
from harness.descr import ty_src

NEEDED = ["Deser/Model.v", "Deser/Run.v", "Deser/Unfold.v", "Deser/Coerce.v"]

COERCE_ATOMS = ["", " ", "0", "1", "12", "-3", "1.5", "0.25", "t", "F", "true", "TRUE", "Yes", "no", "on", "OFF", "ok", "KO",
                "maybe", "a", 0, 1, 2, -1, 1.0, 1.5, 0.0, True, False, None, [], {}]


def union_free(t):
    k = t[0]
    if k == "union":
        return False
    if k in ("coll", "con"):
        return union_free(t[2])
    if k == "tuple":
        return all(union_free(x) for x in t[1])
    if k == "map":
        return union_free(t[1]) and union_free(t[2])
    return True


def union_free_u(u, t, seen=None):
    seen = seen or set()
    if not union_free_shallow(u, t, seen):
        return False
    return True


def union_free_shallow(u, t, seen):
    k = t[0]
    if k == "union":
        return False
    if k in ("coll", "con"):
        return union_free_shallow(u, t[2], seen)
    if k == "tuple":
        return all(union_free_shallow(u, x, seen) for x in t[1])
    if k == "map":
        return union_free_shallow(u, t[1], seen) and union_free_shallow(u, t[2], seen)
    if k == "obj":
        if t[1] in seen:
            return True
        seen.add(t[1])
        return all(union_free_shallow(u, f["ty"], seen) for f in u["classes"][t[1]]["fields"])
    return True


def coercible(rng, u, t, opts):
    d = G.gen_valid(rng, u, t, 3, opts)
    r = rng.random()
    if r < 0.5:
        d = stringify(rng, d)
    elif r < 0.65:
        d = rng.choice(COERCE_ATOMS)
    elif r < 0.8:
        d = G.mutate(rng, d)
    return d


def stringify(rng, d):
    """replace primitive leaves by other primitives that the documented table converts (or not)"""
    if isinstance(d, list) and d:
        i = rng.randrange(len(d))
        return d[:i] + [stringify(rng, d[i])] + d[i + 1:]
    if isinstance(d, dict) and d:
        kk = rng.choice(list(d))
        return {k: (stringify(rng, v) if k == kk else v) for k, v in d.items()}
    if isinstance(d, bool):
        return rng.choice(["true", "False", "YES", "off", 1, 0, "maybe", 2])
    if isinstance(d, int) and abs(d) < 10 ** 6:
        return rng.choice([str(d), float(d), " %d " % d, str(d) + ".0", "x", True])
    if isinstance(d, float) and d == d and abs(d) < 1000 and d * 4 == int(d * 4):
        return rng.choice([str(d), int(d), "x"])
    if isinstance(d, str):
        return rng.choice([1, 1.5, True, None])
    if d is None:
        return rng.choice(["", " ", 0, "null"])
    return d


def uses_fallback(c):
    """with fall_back_on_default an invalid field is replaced by its default in strict mode while coercion may make
    it valid: both results are legitimate and differ"""
    return c.opts["fall_back_on_default"] or any(f.get("fallback") for cl in c.u["classes"] for f in cl["fields"])


def py_equal(a, b):
    try:
        return a == b or (a != a and b != b)
    except Exception:
        return False


def run(tier):
    R = core.Run("C14", tier)
    R.trusted = core.TRUSTED_COMMON + ["coercion.py is modelled by Deser.Model.coerce against the regenerated word table "
                                       "(coq/Gen/Tables.v); int()/float() on strings are modelled on the grammar "
                                       "[blanks][sign]digits[.quarter fraction] only, which bounds the generated strings"]
    R.coq_build(NEEDED)
    n = dict(quick=(120, 6, 7), thorough=(1500, 8, 10))[tier]
    P = Producer(R, *n, depth=3, make_data=coercible, coerce=True)

    def strict_vs_coerce(U, c):
        so = dict(c.opts, coerce=False)
        k, v, _ = G.observe(U, c.t, c.data, so, c.root)
        R.count(f"strict:{k}/coerce:{c.kind}")
        if c.kind == "crash":
            R.violation(f"deserialize(coerce=True) raised {c.payload}", c.to_json())
        elif k == "ok" and c.kind != "ok":
            R.violation("a datum accepted in strict mode is rejected with coerce=True", c.to_json())
        elif k == "ok" and union_free_u(c.u, c.t) and not uses_fallback(c) \
                and not (py_equal(v, c.payload) and type(v) is type(c.payload)):
            R.violation(f"union-free type: strict result {v!r} differs from coerced result {c.payload!r}", c.to_json())
        # keep the strict observation too: the Coq side relates both runs
        if k != "crash":
            sc = Case()
            sc.uidx, sc.u, sc.opts, sc.root, sc.t, sc.data, sc.tag = c.uidx, c.u, so, c.root, c.t, c.data, "strict-twin"
            sc.kind, sc.payload, sc.extra = k, v, {}
            try:
                sc.obs = G.obs_coq(k, v, U)
                sc.coq = G.case_coq(f"U{c.uidx}", so, c.root, c.t, c.data, sc.obs)
                twins.append(sc)
            except ValueError:
                pass

    twins = []
    P.hooks.append(strict_vs_coerce)
    P.run()
    custom_coercers(R)
    bad_model = P.check("C14_model", C_MODEL, subset=P.cases + twins)
    # a disagreement with the model of the documented table is a concrete failing input when it is about acceptance:
    # the datum is rejected in strict mode, accepted with coercion, and no documented conversion (the model) accepts it
    if bad_model and not R.violations:
        strict_kind = {(id(t.u), repr(t.t), repr(t.data), repr(t.root), repr(sorted(dict(t.opts, coerce=True).items()))): t.kind
                       for t in twins}
        for c in bad_model[:40]:
            if getattr(c, "tag", "") == "strict-twin" or not c.opts.get("coerce") or c.kind != "ok":
                continue
            key = (id(c.u), repr(c.t), repr(c.data), repr(c.root), repr(sorted(c.opts.items())))
            if strict_kind.get(key) != "err":
                continue
            said = P.diagnose("C14_model", c)
            if said.strip().strip('"').startswith("Err "):
                R.violation(f"a datum rejected in strict mode is accepted with coerce=True as {c.payload!r} although no documented "
                            f"conversion applies (the model of the documented table rejects it: {said[:160]})", c.to_json())
                if len(R.violations) >= 3:
                    break
    if bad_model and not R.violations:
        for c in bad_model[:5]:
            R.broken.append("correspondence model/implementation fails on " + repr(c.to_json())[:600]
                            + " model says: " + P.diagnose("C14_model", c))
    from harness import probes
    probes.discriminator_probe(R, {'coerce'})
    R.hist["model_mismatches"] = len(bad_model)
    return R.finish(
        rule="types of the C01 grammar x data whose primitive leaves are replaced by numeric strings, boolean words in "
             "all cases, '', blanks, numbers of the other class; every case is run strict and coerced; custom coercers "
             "returning right- and wrong-typed results; the coerced run is compared with the Coq model of coercion.py")


def custom_coercers(R):
    pyrun.ensure_repo_on_path()
    from typing import List, Optional, Dict, Literal, Union
    from apischema import deserialize, ValidationError
    wrong = {int: "x", float: "y", str: 1, bool: "z", list: 3, dict: 4, type(None): 5}
    right = {int: 7, float: 1.5, str: "s", bool: True, list: [], dict: {}, type(None): None}

    def wrong_coercer(cls, data):
        return wrong.get(cls, data)

    def right_coercer(cls, data):
        return right.get(cls, data)

    def ident(cls, data):
        return data
    for tp, d in [(int, "a"), (float, None), (str, 2), (bool, 0), (List[int], ["a", 2]), (Dict[str, int], {"k": "v"}),
                  (Optional[int], "a"), (Literal[1, 2], "z"), (Union[int, str], None), (List[int], 5)]:
        R.count("custom_coercer_probe")
        try:
            v = deserialize(tp, d, coerce=wrong_coercer)
            # accepted: the result must nevertheless be well typed
            if not well_typed(tp, v):
                R.violation(f"custom coercer result not type-checked: deserialize({tp}, {d!r}) -> {v!r}",
                            dict(type=str(tp), data=repr(d), coercer="wrong_coercer"))
        except ValidationError:
            pass
        except Exception as e:
            R.violation(f"custom coercer: {type(e).__name__} for {tp} <- {d!r}", dict(type=str(tp), data=repr(d)))
        try:
            v = deserialize(tp, d, coerce=right_coercer)
            if not well_typed(tp, v):
                R.violation(f"custom coercer (right-typed) gives ill-typed {v!r} for {tp}", dict(type=str(tp), data=repr(d)))
        except ValidationError:
            pass
        try:
            a = outcome(lambda: deserialize(tp, d, coerce=ident))
            b = outcome(lambda: deserialize(tp, d))
            if a[0] != b[0]:
                R.violation(f"identity coercer changes acceptance for {tp} <- {d!r}", dict(type=str(tp), data=repr(d)))
        except Exception as e:
            R.violation(f"identity coercer: {type(e).__name__}", dict(type=str(tp), data=repr(d)))


def outcome(f):
    from apischema import ValidationError
    try:
        return ("ok", f())
    except ValidationError as e:
        return ("err", e.errors)


def well_typed(tp, v):
    import typing
    o = typing.get_origin(tp)
    a = typing.get_args(tp)
    if tp is int:
        return isinstance(v, int) and not isinstance(v, bool)
    if tp is float:
        return isinstance(v, float)
    if tp is str:
        return isinstance(v, str)
    if tp is bool:
        return isinstance(v, bool)
    if o is list:
        return isinstance(v, list) and all(well_typed(a[0], x) for x in v)
    if o is dict:
        return isinstance(v, dict) and all(well_typed(a[0], k) and well_typed(a[1], x) for k, x in v.items())
    if o is typing.Union:
        return any(well_typed(x, v) for x in a)
    if tp is type(None):
        return v is None
    if o is typing.Literal:
        return any(v == x and type(v) is type(x) for x in a)
    return True


def replay(data):
    print(data)
