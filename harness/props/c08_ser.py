"""serialization side of C08: results do not depend on no_copy, precomputed methods, check_type, pass_through"""
import json

from harness import gen_deser as G, gen_ser as S, pyrun
from harness.ser_run import SProducer


def mutable_ids(x, acc=None):
    """ids of the mutable containers reachable from x"""
    import dataclasses
    acc = {} if acc is None else acc
    if isinstance(x, (list, dict, set)):
        if id(x) in acc:
            return acc
        acc[id(x)] = x
    if isinstance(x, (list, tuple, set, frozenset)):
        for y in x:
            mutable_ids(y, acc)
    elif isinstance(x, dict):
        for k, y in x.items():
            mutable_ids(y, acc)
    elif dataclasses.is_dataclass(x) and not isinstance(x, type):
        for f in dataclasses.fields(x):
            mutable_ids(getattr(x, f.name, None), acc)
    return acc


def str_vs_sequence(t, u, seen=None):
    """a union offering both a collection and a string-like alternative: a str value is also a Sequence, which alternative
    serializes it depends on the strategy (not a dependence on the options)"""
    seen = set() if seen is None else seen
    k = t[0]
    if k == "union":
        kinds = set()
        for a in t[1]:
            b = a
            while b[0] == "con":
                b = b[2]
            kinds.add("seq" if b[0] in ("coll", "tuple") else "str" if b[0] in ("str", "lit", "enum", "any") else b[0])
        if {"seq", "str"} <= kinds:
            return True
        return any(str_vs_sequence(a, u, seen) for a in t[1])
    if k in ("coll", "con"):
        return str_vs_sequence(t[2], u, seen)
    if k == "tuple":
        return any(str_vs_sequence(a, u, seen) for a in t[1])
    if k == "map":
        return str_vs_sequence(t[2], u, seen)
    if k == "obj":
        if t[1] in seen:
            return False
        seen.add(t[1])
        return any(str_vs_sequence(f["ty"], u, seen) for f in u["classes"][t[1]]["fields"])
    return False


def run_part(R, tier):
    pyrun.ensure_repo_on_path()
    from apischema import serialize, serialization_method, serialization_default, PassThroughOptions
    n = dict(quick=(40, 6, 3), thorough=(400, 8, 5))[tier]
    P = SProducer(R, *n, depth=3, pass_through=False)

    def hook(U, c):
        if c.kind != "ok":
            return
        T = U.type(c.t)
        kw = S.sopts_kwargs(c.opts)
        base = c.payload
        info = c.to_json()
        before = repr(c.value)
        rng = R.rng

        def same(a, b):
            return a == b and json.dumps(a, sort_keys=True, default=repr) == json.dumps(b, sort_keys=True, default=repr)
        try:
            # no_copy
            other = serialize(T, c.value, **dict(kw, no_copy=not kw["no_copy"]))
            R.count("ser:no_copy_flip")
            if not same(other, base):
                R.violation(f"serialize depends on no_copy: {other!r} vs {base!r}", dict(info, other=repr(other)))
            # precomputed method
            mkw = {k: v for k, v in kw.items()}
            m = serialization_method(T, **mkw)
            got = m(c.value)
            R.count("ser:precomputed_method")
            if not same(got, base):
                R.violation(f"serialization_method(T)(v) = {got!r} differs from serialize(T, v) = {base!r}", info)
            # check_type on a well-typed value
            chk = serialize(T, c.value, **dict(kw, check_type=True))
            R.count("ser:check_type")
            if not same(chk, base):
                R.violation(f"check_type=True changes the result on a well-typed value: {chk!r} vs {base!r}", info)
            # sharing: with no_copy=False no mutable container of the input is in the output
            out_copy = serialize(T, c.value, **dict(kw, no_copy=False))
            shared = set(mutable_ids(out_copy)) & set(mutable_ids(c.value))
            R.count("ser:sharing")
            if shared:
                R.violation("with no_copy=False the output shares a mutable container with the input", info)
            # pass_through: the named types are left untouched, serialization_default completes them
            flags = {k: rng.random() < 0.5 for k in ("any", "collections", "dataclasses", "enums", "tuple")}
            pt = PassThroughOptions(**flags)
            out_pt = serialize(T, c.value, **dict(kw, pass_through=pt))
            dflt = serialization_default(**{k: v for k, v in kw.items() if k in ("additional_properties", "aliaser", "exclude_defaults",
                                                                                  "exclude_none", "exclude_unset")})
            R.count("ser:pass_through")
            if str_vs_sequence(c.t, c.u):
                R.count("ser:pass_through_skipped_str_vs_sequence")
                return
            try:
                a = json.loads(json.dumps(out_pt, default=dflt))
                b = json.loads(json.dumps(base))
                if a != b:
                    R.violation(f"pass_through={flags} then serialization_default gives {a!r}, serialize gives {b!r}", info)
            except (TypeError, ValueError) as e:
                if not flags["any"]:      # Any positions may carry objects json cannot dump with both strategies
                    R.violation(f"pass_through={flags}: the result cannot be completed by serialization_default: {e}", info)
        except Exception as e:
            R.violation(f"{type(e).__name__} while varying the options: {e}", info)
            return
        if repr(c.value) != before:
            R.violation("serialize modified its input", info)

    P.hooks.append(hook)
    P.run()
