"""serialization side of C08 (filled once the serialization harness exists)"""


def run_part(R, tier):
    try:
        from harness import ser_run
    except ImportError:
        R.count("serialization_side_not_built_yet")
        return
    ser_run.c08_part(R, tier)
