"""C01 — deserialization accepts exactly conforming data and builds the typed value."""
from harness import core, gen_deser as G
from harness.deser_run import Producer, C_MODEL, C_SPEC

NEEDED = ["Core/Json.v", "Core/Errors.v", "Core/Text.v", "Deser/Model.v", "Deser/Spec.v", "Deser/Run.v", "Deser/Unfold.v", "Deser/Loops.v", "Deser/Proofs.v", "Deser/Examples.v",
          "Small/ConMerge.v", "Small/ConMergeProofs.v", "Small/Aggregate.v", "Small/AggregateProofs.v"]


def run(tier):
    R = core.Run("C01", tier)
    R.trusted = core.TRUSTED_COMMON + [
        "hand-written model of deserialization/methods.py + __init__.py (coq/Deser/Model.v) and declarative spec (coq/Deser/Spec.v); "
        "floats restricted to the dyadic fragment q/4 (+nan/inf); regex patterns restricted to literal prefixes",
    ]
    R.coq_build(NEEDED)
    n = dict(quick=(150, 6, 5), thorough=(1500, 8, 8))[tier]
    P = Producer(R, *n, depth=3, roots=True, matrix=2)
    P.run()
    for c in P.cases:
        if c.kind == "crash":
            R.violation(f"deserialize raised {c.payload} instead of returning or raising ValidationError", c.to_json())
    bad_spec = P.check("C01_spec", C_SPEC)
    for c in bad_spec[:10]:
        if c.kind == "crash":
            continue
        R.violation("deserialize disagrees with the documented data model (Coq spec): " + P.diagnose("C01_spec", c),
                    c.to_json())
    bad_model = P.check("C01_model", C_MODEL)
    if bad_model and not R.violations:
        for c in bad_model[:5]:
            R.broken.append("correspondence model/implementation fails on " + repr(c.to_json())[:600]
                            + " model says: " + P.diagnose("C01_model", c))
    R.hist["model_mismatches"] = len(bad_model)
    R.hist["spec_mismatches"] = len(bad_spec)
    # outside the modelled grammar: constraints given at several levels, flattened fields under dynamic aliasers
    from harness import probes
    probes.stacked_constraints_probe(R, {"accept"})
    probes.flatten_probe(R)
    probes.literal_equal_values_probe(R)
    probes.aggregate_probe(R, aspects=("dispatch",), n_classes=(40 if tier == "quick" else 300))
    return R.finish(
        rule="random universes (dataclass/NamedTuple/TypedDict, enums), random types of depth<=3 over the modelled grammar, "
             "data = generated-valid then 0-2 local mutations or atoms (incl. non-JSON objects); options random; a case is "
             "distinct by (type shape, data class, outcome kind, error kinds, coerce, no_copy, additional_properties); plus every "
             "pair / some triples of constraints stacked in 4 ways (nested Annotated, NewType schema, per-call schema=, field "
             "metadata): accepted iff every level accepts; flattened fields (2 levels) under 3 aliasers")


def replay(data):
    print(data)
