"""C08 — options that are optimizations never change results (deserialization side; serialization side in c08 part 2)."""
import copy

from harness import core, gen_deser as G, pyrun
from harness.deser_run import Producer, C_MODEL
from harness.descr import data_real

NEEDED = ["Deser/Model.v", "Deser/Run.v", "Deser/Unfold.v", "Deser/Loops.v", "Deser/Proofs.v", "Deser/NoCopy.v"]


def canon(U, kind, payload):
    try:
        return G.obs_coq(kind, payload, U)
    except ValueError:
        return repr((kind, payload))


def has_any(u, t, seen=None):
    seen = seen if seen is not None else set()
    k = t[0]
    if k == "any":
        return True
    if k in ("coll", "con"):
        return has_any(u, t[2], seen)
    if k in ("tuple", "union"):
        return any(has_any(u, x, seen) for x in t[1])
    if k == "map":
        return has_any(u, t[1], seen) or has_any(u, t[2], seen)
    if k == "obj":
        if t[1] in seen:
            return False
        seen.add(t[1])
        return any(has_any(u, f["ty"], seen) for f in u["classes"][t[1]]["fields"])
    return False


def same(a, b):
    import math
    if type(a) is not type(b):
        return False
    if isinstance(a, float):
        return (math.isnan(a) and math.isnan(b)) or a == b
    if isinstance(a, (list, tuple)):
        return len(a) == len(b) and all(same(x, y) for x, y in zip(a, b))
    if isinstance(a, dict):
        return set(a) == set(b) and all(same(a[k], b[k]) for k in a)
    try:
        return a == b
    except Exception:
        return False


def shares_mutable(result, data, depth=0):
    """does `result` contain (by identity) a list / dict that is part of `data`"""
    ids = set()

    def collect(d):
        if isinstance(d, (list, dict)):
            ids.add(id(d))
            for x in (d.values() if isinstance(d, dict) else d):
                collect(x)
    collect(data)
    found = []

    def walk(r, seen):
        if id(r) in seen:
            return
        seen.add(id(r))
        if isinstance(r, (list, dict, set)) and id(r) in ids:
            found.append(r)
        if isinstance(r, dict):
            for x in r.values():
                walk(x, seen)
        elif isinstance(r, (list, tuple, set, frozenset)):
            for x in r:
                walk(x, seen)
        elif hasattr(r, "__dict__"):
            for x in vars(r).values():
                walk(x, seen)
    walk(result, set())
    return bool(found)


def share_kinds(u, t, result, data):
    """where does `result` (deserialized at type t) hold a list / dict of `data`: 'any' = at an Any-typed position,
    'td-extra' = below an additional property of a TypedDict (an untyped position too), 'typed' = anywhere else"""
    ids = set()

    def collect(d):
        if isinstance(d, (list, dict)):
            ids.add(id(d))
            for x in (d.values() if isinstance(d, dict) else d):
                collect(x)
    collect(data)

    def untyped(r):
        return shares_mutable(r, data)

    def fits(t, r):
        k = t[0]
        if k == "coll":
            return isinstance(r, {"list": list, "set": set, "frozenset": frozenset, "tuple": tuple,
                                  "seq": (list, tuple), "absset": (set, frozenset)}.get(t[1], (list, tuple, set, frozenset)))
        if k == "tuple":
            return isinstance(r, tuple) and len(r) == len(t[1])
        if k == "map":
            return isinstance(r, dict)
        if k == "con":
            return fits(t[2], r)
        if k == "union":
            return any(fits(x, r) for x in t[1])
        if k == "obj":
            td = u["classes"][t[1]]["kind"] == "typeddict"
            return isinstance(r, dict) if td else type(r).__name__ == f"C{t[1]}"
        if k == "any":
            return True
        return not isinstance(r, (list, dict, set, frozenset, tuple))

    def walk(t, r, depth=0):
        k = t[0]
        if k == "any":
            return {"any"} if untyped(r) else set()
        out = set()
        if k not in ("union", "con") and isinstance(r, (list, dict)) and id(r) in ids:
            out.add("typed")
        if depth > 40:
            return out | ({"typed"} if untyped(r) else set())
        if k == "coll" and isinstance(r, (list, tuple, set, frozenset)):
            for x in r:
                out |= walk(t[2], x, depth + 1)
        elif k == "tuple" and isinstance(r, tuple) and len(r) == len(t[1]):
            for tt, x in zip(t[1], r):
                out |= walk(tt, x, depth + 1)
        elif k == "map" and isinstance(r, dict):
            for x in r.values():
                out |= walk(t[2], x, depth + 1)
        elif k == "con":
            out |= walk(t[2], r, depth)
        elif k == "union":
            cands = [walk(x, r, depth + 1) for x in t[1] if fits(x, r)]
            if not cands:
                out |= {"typed"} if untyped(r) else set()
            else:       # the alternative that built r is not observable: keep the most benign explanation
                cands.sort(key=lambda c: ("typed" in c, len(c)))
                out |= cands[0]
        elif k == "obj":
            cl = u["classes"][t[1]]
            names = {f["name"]: f["ty"] for f in cl["fields"]}
            if cl["kind"] == "typeddict" and isinstance(r, dict):
                for key, x in r.items():
                    if key in names:
                        out |= walk(names[key], x, depth + 1)
                    elif untyped(x):
                        out.add("td-extra")
            elif cl["kind"] != "typeddict" and type(r).__name__ == f"C{t[1]}":     # dataclass / NamedTuple instance
                for n, ft in names.items():
                    if hasattr(r, n):
                        out |= walk(ft, getattr(r, n), depth + 1)
            elif untyped(r):
                out.add("typed")
        elif untyped(r):
            out.add("typed")
        return out
    return walk(t, result)


def sharing_probe(R):
    """directed instances of the two recorded ways a result shares a container with its input, and controls"""
    pyrun.ensure_repo_on_path()
    from typing import Any, Dict, List, TypedDict
    from apischema import deserialize

    class _TD(TypedDict):
        a: List[int]
    R.count("sharing_probe")
    d = {"a": {"k": [1]}}
    r = deserialize(Dict[str, Any], d, no_copy=False)
    if (r["a"] is d["a"] or r["a"]["k"] is d["a"]["k"]) and not R.known_match("share:any"):
        R.violation("with no_copy=False the result shares a mutable container with the input (Any position)",
                    dict(type="Dict[str, Any]", data=d))
    d = {"a": [1], "zz": {"k": []}}
    r = deserialize(_TD, d, no_copy=False, additional_properties=True)
    if r is d or r["a"] is d["a"]:
        R.violation("with no_copy=False the result shares a mutable container with the input",
                    dict(type="TypedDict(a: List[int])", data=d))
    elif "zz" in r and (r["zz"] is d["zz"] or r["zz"]["k"] is d["zz"]["k"]) and not R.known_match("share:typeddict-extra"):
        R.violation("with no_copy=False the result shares a mutable container with the input (additional property of a "
                    "TypedDict)", dict(type="TypedDict(a: List[int])", data=d, additional_properties=True))
    for tp, d in ((List[List[int]], [[1], []]), (Dict[str, List[Dict[str, int]]], {"a": [{"b": 1}]})):
        r = deserialize(tp, d, no_copy=False)
        if shares_mutable(r, d):
            R.violation("with no_copy=False the result shares a mutable container with the input", dict(type=str(tp), data=d))


def passthrough_flatten_probe(R):
    """pass-through options on classes holding a flattened dataclass: the result, completed with serialization_default, is
    the result without pass-through (the case the property names as crashing)"""
    pyrun.ensure_repo_on_path()
    import json
    from dataclasses import dataclass, field
    from typing import List, Optional
    from apischema import PassThroughOptions, serialize, serialization_default
    from apischema.metadata import flatten

    @dataclass
    class In:
        a: int = 0
        t: Optional[str] = None

    @dataclass
    class Out:
        b: int = 0
        inner: In = field(default_factory=In, metadata=flatten)

    @dataclass
    class Holder:
        o: Out
        i: In
        l: List[Out] = field(default_factory=list)
    values = [(Out, Out(1, In(2, "x"))), (Holder, Holder(Out(1, In(2)), In(3), [Out(), Out(4, In(5))])), (List[Out], [Out(), Out(7)])]
    for tp, v in values:
        base = json.dumps(serialize(tp, v), sort_keys=True)
        for pt in (PassThroughOptions(dataclasses=True), PassThroughOptions(dataclasses=True, collections=True),
                   PassThroughOptions(dataclasses=True, any=True, tuple=True), PassThroughOptions(collections=True)):
            R.count("passthrough_flatten_probe")
            info = dict(type=str(tp), value=repr(v), pass_through=repr(pt))
            try:
                out = serialize(tp, v, pass_through=pt)
                got = json.dumps(out, default=serialization_default(), sort_keys=True)
            except Exception as e:   # noqa
                R.violation(f"serialize with {pt} on a class holding a flattened dataclass raised {type(e).__name__}: {e}", info)
                continue
            if got != base:
                R.violation(f"pass-through result {got} (completed with serialization_default) differs from {base}", info)


def passthrough_types_probe(R):
    """PassThroughOptions(types=...): the named types are left untouched where their default serialization would apply, and
    only there: a conversion given for a position (field / Annotated metadata, `conversion=` argument) still applies; the
    result completed with serialization_default is the result without pass-through"""
    pyrun.ensure_repo_on_path()
    import datetime
    import json
    import uuid
    from dataclasses import dataclass, field
    from typing import Annotated, Dict, List, Optional
    from apischema import PassThroughOptions, serialize, serialization_default, serialization_method
    from apischema.metadata import conversion

    def uuid_to_int(u: uuid.UUID) -> int:
        return u.int

    def to_ordinal(d: datetime.date) -> int:
        return d.toordinal()

    @dataclass
    class Event:
        id: uuid.UUID
        parent: Optional[uuid.UUID] = field(default=None, metadata=conversion(serialization=uuid_to_int))
        day: datetime.date = field(default=datetime.date(2020, 1, 2), metadata=conversion(serialization=to_ordinal))
        related: List[Annotated[uuid.UUID, conversion(serialization=uuid_to_int)]] = field(default_factory=list)
        plain_day: datetime.date = datetime.date(2021, 3, 4)
    u1, u2 = uuid.UUID(int=1), uuid.UUID(int=2 ** 70 + 5)
    ev = Event(u1, u2, datetime.date(2022, 5, 6), [u1, u2])
    cases = [(Event, ev, None), (List[Event], [ev, Event(u2)], None), (Dict[str, Optional[Event]], {"a": ev, "b": None}, None),
             (List[uuid.UUID], [u1, u2], uuid_to_int), (Dict[str, List[uuid.UUID]], {"k": [u2]}, uuid_to_int), (uuid.UUID, u2, uuid_to_int),
             (List[uuid.UUID], [u1], None), (Optional[datetime.date], datetime.date(2020, 2, 2), None)]
    options = [PassThroughOptions(types={uuid.UUID}), PassThroughOptions(types={uuid.UUID, datetime.date}),
               PassThroughOptions(types=lambda cls: cls in (uuid.UUID, datetime.date)),
               PassThroughOptions(types={datetime.date}, collections=True)]
    for tp, v, conv in cases:
        for check_type in (False, True):
            try:
                base = json.dumps(serialize(tp, v, conversion=conv, check_type=check_type), sort_keys=True)
            except Exception as e:   # noqa
                R.violation(f"serialize({tp}, ..., check_type={check_type}) does not give JSON data: {type(e).__name__}: {e}",
                            dict(type=str(tp), value=repr(v), check_type=check_type))
                continue
            for pt in options:
                R.count("passthrough_types_probe")
                info = dict(type=str(tp), value=repr(v), pass_through=repr(pt), conversion=getattr(conv, "__name__", None), check_type=check_type)
                try:
                    out = serialize(tp, v, conversion=conv, check_type=check_type, pass_through=pt)
                    got = json.dumps(out, default=serialization_default(), sort_keys=True)
                    via_method = json.dumps(serialization_method(tp, conversion=conv, check_type=check_type, pass_through=pt)(v),
                                            default=serialization_default(), sort_keys=True)
                except Exception as e:   # noqa
                    R.violation(f"serialize with {pt} raised {type(e).__name__}: {e}", info)
                    continue
                if got != base or via_method != base:
                    R.violation(f"pass-through of named types: result {got} (method: {via_method}), completed with "
                                f"serialization_default, differs from the result without pass-through {base}", info)


def run(tier):
    R = core.Run("C08", tier)
    R.trusted = core.TRUSTED_COMMON + ["object identity (sharing with the input) is observed on the implementation only; "
                                       "the model is purely functional"]
    R.coq_build(NEEDED)
    n = dict(quick=(100, 6, 6), thorough=(1200, 8, 10))[tier]
    P = Producer(R, *n, depth=3, matrix=1)

    def variants(U, c):
        pyrun.ensure_repo_on_path()
        from apischema import deserialization_method, ValidationError, settings
        if c.kind == "crash":
            return
        # no_copy flipped
        o2 = dict(c.opts, no_copy=not c.opts["no_copy"])
        k2, v2, _ = G.observe(U, c.t, c.data, o2, c.root)
        if k2 != c.kind or canon(U, k2, v2) != canon(U, c.kind, c.payload):
            R.violation(f"result depends on no_copy: {c.payload!r} vs {v2!r}", c.to_json())
            return
        R.count("no_copy_pairs")
        # sharing
        if not G.has_other(c.data):
            real = data_real(c.data)
            before = copy.deepcopy(real)
            kw = G.opts_kwargs(dict(c.opts, no_copy=False))
            try:
                from apischema import deserialize
                r = deserialize(U.type(c.t), real, **kw)
                if shares_mutable(r, real):
                    kinds = share_kinds(c.u, c.t, r, real)
                    R.count("shared:" + "+".join(sorted(kinds)))
                    if "typed" in kinds or not kinds:
                        R.violation("with no_copy=False the result shares a mutable container with the input", c.to_json())
                        return
                    for kind, tag in (("any", "share:any"), ("td-extra", "share:typeddict-extra")):
                        if kind in kinds and not R.known_match(tag):
                            R.violation("with no_copy=False the result shares a mutable container with the input "
                                        f"({kind} position)", c.to_json())
                            return
            except ValidationError:
                pass
            if not G.same_data(before, real):
                R.violation("input modified", c.to_json())
                return
            real2 = data_real(c.data)
            before2 = copy.deepcopy(real2)
            try:
                deserialize(U.type(c.t), real2, **G.opts_kwargs(dict(c.opts, no_copy=True)))
            except ValidationError:
                pass
            if not G.same_data(before2, real2):
                R.violation("input modified with no_copy=True", c.to_json())
                return
        # precomputed method
        kw = G.opts_kwargs(c.opts)
        try:
            m = deserialization_method(U.type(c.t), **kw)
            try:
                r = ("ok", m(data_real(c.data)))
            except ValidationError as e:
                r = ("err", e.errors)
            if r[0] != c.kind or canon(U, r[0], r[1]) != canon(U, c.kind, c.payload):
                if c.root is None:
                    R.violation(f"deserialization_method differs from deserialize: {r!r} vs {c.payload!r}", c.to_json())
                    return
            R.count("method_pairs")
        except Exception as e:
            R.violation(f"deserialization_method raised {type(e).__name__}: {e}", c.to_json())
            return
        # override_dataclass_constructors
        prev = settings.deserialization.override_dataclass_constructors
        try:
            settings.deserialization.override_dataclass_constructors = not prev
            k3, v3, _ = G.observe(U, c.t, c.data, c.opts, c.root)
        finally:
            settings.deserialization.override_dataclass_constructors = prev
        if k3 != c.kind or canon(U, k3, v3) != canon(U, c.kind, c.payload):
            R.violation(f"result depends on override_dataclass_constructors: {c.payload!r} vs {v3!r}", c.to_json())
            return
        R.count("constructor_pairs")

    P.hooks.append(variants)
    P.run()
    bad_model = P.check("C08_model", C_MODEL)
    if bad_model and not R.violations:
        for c in bad_model[:5]:
            R.broken.append("correspondence model/implementation fails on " + repr(c.to_json())[:600]
                            + " model says: " + P.diagnose("C08_model", c))
    R.hist["model_mismatches"] = len(bad_model)
    from harness.props import c08_ser
    c08_ser.run_part(R, tier)
    from harness import probes
    probes.discriminator_probe(R, {'mutation', 'options'})
    probes.constructor_probe(R)
    probes.stdlib_round_trip_probe(R, aspects=("no_copy",))
    sharing_probe(R)
    passthrough_flatten_probe(R)
    passthrough_types_probe(R)
    return R.finish(
        rule="every deserialization case is re-run with no_copy flipped, through the precomputed deserialization_method, "
             "and with settings.deserialization.override_dataclass_constructors flipped; results (values with runtime "
             "classes, or full error lists) must be identical; identity of containers is checked against the input; "
             "serialization side: check_type, no_copy, all 2^5 PassThroughOptions, serialization_method; plus dataclasses whose "
             "construction is observable (own / inherited __post_init__, hand-written __init__, init=False, InitVar, __slots__, "
             "__setattr__, __new__, metaclass): override_dataclass_constructors x no_copy x function/method give the same result")


def replay(data):
    print(data)
