"""Shared case production for the deserialization properties (C01, C02, C03, C08, C13, C14)."""
import json

from harness import core, gen_deser as G
from harness.descr import (ty_src, universe_src, universe_coq, data_json, data_unjson, ty_coq, data_coq, con_opt_coq,
                           value_coq)

C_MODEL = ("(fun c : " + G.CASE_TYPE + " => let '(u, o, root, t, d, ob) := c in "
           "res_matches (deserialize u o fuel0 root t d) ob)")
C_SPEC = ("(fun c : " + G.CASE_TYPE + " => let '(u, o, root, t, d, ob) := c in "
          "if o_coerce o then true else "
          "(match ob with "
          "| ICrash _ => true "
          "| IOk v => spec_check u o root t d (Some v) "
          "| IErr _ => spec_check u o root t d None end))")


def pyrun_reset():
    from harness import pyrun
    pyrun.reset_caches()


class Case:
    __slots__ = ("uidx", "u", "opts", "root", "t", "data", "kind", "payload", "extra", "coq", "obs", "tag")

    def to_json(self):
        return dict(universe=self.u, opts=self.opts, root=self.root, type=self.t, data=data_json(self.data),
                    python_source=universe_src(self.u), python_type=ty_src(self.t),
                    observed_kind=self.kind,
                    observed=(repr(self.payload) if self.kind != "err" else self.payload), tag=self.tag)


def type_tag(t):
    k = t[0]
    if k in ("coll",):
        return f"{t[1]}<{type_tag(t[2])}>"
    if k == "tuple":
        return "tuple<" + ",".join(type_tag(x) for x in t[1]) + ">"
    if k == "map":
        return f"map<{type_tag(t[1])},{type_tag(t[2])}>"
    if k == "con":
        return "con<" + type_tag(t[2]) + ">"
    if k == "union":
        return "union<" + ",".join(sorted(type_tag(x) for x in t[1])) + ">"
    return k


def data_tag(d):
    if isinstance(d, G.Other):
        return "other"
    if isinstance(d, list):
        return "list"
    if isinstance(d, dict):
        return "dict"
    return type(d).__name__


def err_kinds(errs):
    ks = set()
    for e in errs:
        m = e["err"]
        for key in ("expected type", "missing property", "unexpected property", "not one of", "item count", "minimum",
                    "maximum", "multiple", "string length", "pattern", "duplicate", "property count", "too large"):
            if key in m:
                ks.add(key)
    return tuple(sorted(ks))


class Producer:
    def __init__(self, R, n_universes, types_per_u, data_per_t, depth=2, coerce=None, opts_per_case=1,
                 type_filter=None, make_type=None, make_data=None, make_opts=None, roots=False, matrix=0,
                 make_universe=None):
        self.R = R
        self.rng = R.rng
        self.cases = []
        self.universes = []     # (coq name, coq def text)
        self.cfg = dict(n_universes=n_universes, types_per_u=types_per_u, data_per_t=data_per_t, depth=depth)
        self.coerce = coerce
        self.type_filter = type_filter
        self.make_type = make_type
        self.make_data = make_data
        self.make_opts = make_opts
        self.roots = roots
        self.matrix = matrix
        self.make_universe = make_universe
        self.hooks = []         # callables (U, case) -> None run while the universe is alive

    def add_universe(self, u):
        idx = len(self.universes)
        self.universes.append((f"U{idx}", universe_coq(u)))
        return idx

    def run(self):
        rng = self.rng
        for ui in range(self.cfg["n_universes"]):
            u = (self.make_universe or G.gen_universe)(rng)
            try:
                U = G.Universe(u, spell=rng.randrange(4))
            except Exception as e:  # the generated source could not be defined: a harness limitation, not a finding
                self.R.count("universe_rejected:" + type(e).__name__)
                continue
            uidx = self.add_universe(u)
            for ti in range(self.cfg["types_per_u"]):
                t = (self.make_type or (lambda r, uu, dd: G.gen_type(r, uu, dd)))(rng, u, rng.randint(0, self.cfg["depth"]))
                if self.type_filter and not self.type_filter(t):
                    continue
                t = U.canon(t)
                opts = (self.make_opts or (lambda r: G.gen_opts(r, self.coerce)))(rng)
                opts_gen = dict(opts, alias_fn=G.ALIASERS[opts["aliaser"]][0])
                root = None
                if self.roots and rng.random() < 0.15:
                    b = G.base_kind(t)
                    if b and not G.has_special(t):
                        root = G.gen_constraints(rng, b)
                # typing.Union[A, B] == Union[B, A]: apischema's lru caches would serve the method compiled for the
                # order seen first in this process (recorded finding KF-C13-union-order-cache); isolate every type
                pyrun_reset()
                try:
                    U.type(t)
                except Exception as e:
                    self.R.count("type_rejected:" + type(e).__name__)
                    continue
                datas = []
                for di in range(self.cfg["data_per_t"]):
                    if self.make_data:
                        d = self.make_data(rng, u, t, opts_gen)
                    else:
                        d = G.gen_valid(rng, u, t, 3, opts_gen)
                        r = rng.random()
                        if r < 0.45:
                            d = G.mutate(rng, d)
                            if rng.random() < 0.3:
                                d = G.mutate(rng, d)
                        elif r < 0.55:
                            d = rng.choice(G.ATOMS + G.OTHERS)
                    if not G.in_fragment(d):
                        continue
                    datas.append(d)
                for d in datas:
                    self.one(U, uidx, u, opts, root, t, d)
            if self.matrix:
                for cid in range(len(u["classes"])):
                    for rep in range(self.matrix):
                        opts = (self.make_opts or (lambda r: G.gen_opts(r, self.coerce)))(rng)
                        opts_gen = dict(opts, alias_fn=G.ALIASERS[opts["aliaser"]][0])
                        pyrun_reset()
                        t = ("obj", cid)
                        r = rng.random()
                        if r < 0.2:
                            t = ("union", [t, ("none",)])
                        elif r < 0.35:
                            t = ("coll", "list", t)
                        for d in G.object_matrix(rng, u, cid, opts_gen, limit=12):
                            if t[0] == "coll":
                                d = [d]
                            if G.in_fragment(d):
                                self.one(U, uidx, u, opts, None, t, d, tag="matrix")
            U.close()
        return self.cases

    def one(self, U, uidx, u, opts, root, t, d, tag="gen"):
        t = U.canon(t)      # one order per set of union alternatives / literal values (typing compares them as sets)
        c = Case()
        c.uidx, c.u, c.opts, c.root, c.t, c.data, c.tag = uidx, u, opts, root, t, d, tag
        try:
            c.kind, c.payload, c.extra = G.observe(U, t, d, opts, root)
        except Exception as e:   # harness-level failure (e.g. type cannot be built)
            self.R.count("observe_failed:" + type(e).__name__)
            return None
        try:
            if G.has_inexact_int(d) and G.mentions_float(t, u):
                raise ValueError("int rounded by float(): outside the exact-rational float model")
            if G.count_nan(d) >= 2 and (G.mentions_set(t, u) or G.mentions_unique(t, u, root)):
                # whether two nan are one member of a Python set depends on their being the same object; whether they are
                # "the same item" for uniqueItems is not defined by JSON (nan is no JSON number): the model says equal, == says no
                raise ValueError("several nan at a set / uniqueItems position: outside the model")
            c.obs = G.obs_coq(c.kind, c.payload, U)
            c.coq = G.case_coq(f"U{uidx}", opts, root, t, d, c.obs)
        except ValueError as e:
            self.R.count("outside_fragment")
            return None
        fp = (type_tag(t), data_tag(d), c.kind, err_kinds(c.payload) if c.kind == "err" else (),
              opts["coerce"], opts["no_copy"], opts["additional_properties"])
        self.R.note_case(fp, sample=dict(type=ty_src(t), data=repr(d), options={k: v for k, v in opts.items()},
                                         outcome=c.kind,
                                         result=(c.payload if c.kind == "err" else repr(c.payload))))
        self.R.count("outcome:" + c.kind)
        self.R.count("root_type:" + t[0])
        for h in self.hooks:
            h(U, c)
        self.cases.append(c)
        return c

    def header(self):
        return G.HEADER + "\n".join(f"Definition {n} : univ := {d}." for n, d in self.universes) + "\n"

    def check(self, name, checker, subset=None):
        cases = self.cases if subset is None else subset
        items = [c.coq for c in cases]
        bad, errs = core.run_coq_shards(name, self.header(), items, checker, item_type=G.CASE_TYPE, shard=250)
        for k, e in errs:
            self.R.broken.append(f"coq evaluation of cases failed ({name}, shard {k}): {e[-400:]}")
        return [cases[i] for i in bad]

    def diagnose(self, name, case):
        """model's and spec's answers for one case, as text"""
        expr = f"let '(u, o, root, t, d, ob) := ({case.coq}) in (show_res (deserialize u o fuel0 root t d))"
        return core.coq_eval_strings(name, self.header(), [expr])[0]
