"""Helpers to run generated Python source against the implementation under test (VERIF_REPO)."""
import importlib
import linecache
import os
import sys
import types

from harness import core

_n = [0]


def ensure_repo_on_path():
    if sys.path[0] != core.REPO:
        sys.path.insert(0, core.REPO)
    deps = os.path.join(core.BUILD, ".pydeps")
    if deps not in sys.path:
        sys.path.insert(1, deps)      # before the venv's site-packages: jsonschema needs its own (newer) attrs


def exec_module(src, name=None):
    """Execute `src` as a fresh module whose source is visible to inspect.getsource."""
    ensure_repo_on_path()
    _n[0] += 1
    name = name or f"verif_gen_{os.getpid()}_{_n[0]}"
    fn = f"<{name}>"
    linecache.cache[fn] = (len(src), None, src.splitlines(True), fn)
    mod = types.ModuleType(name)
    mod.__file__ = fn
    sys.modules[name] = mod
    code = compile(src, fn, "exec")
    exec(code, mod.__dict__)
    return mod


def drop_module(mod):
    sys.modules.pop(mod.__name__, None)
    linecache.cache.pop(mod.__file__, None)


def reset_caches():
    ensure_repo_on_path()
    import apischema.cache
    apischema.cache.reset()
