import sys, os
from harness import core
from harness.ser_run import SProducer, C_SMODEL
from harness.descr import ty_src

def main(nu=30, seed=None):
    if seed: os.environ["VERIF_SEED"] = str(seed)
    R = core.Run("DBGS", "quick")
    P = SProducer(R, int(nu), 6, 4, depth=3)
    P.run()
    bad = P.check("DBGS", C_SMODEL)
    print("cases", len(P.cases), "bad", len(bad), R.hist, "BROKEN", R.broken[:1])
    seen = set(); shown = 0
    for c in bad:
        key = (c.t[0], c.kind, type(c.value).__name__)
        if key in seen: continue
        seen.add(key)
        print("TYPE", ty_src(c.t), "| VALUE", c.vrepr, "| OPTS", {k: v for k, v in c.opts.items() if v not in (False, 'id')})
        print("  IMPL ", c.kind, c.payload)
        print("  MODEL", P.diagnose("DBGS", c))
        if "C" in ty_src(c.t): print(P.universes[c.uidx][1][:1800])
        shown += 1
        if shown > 12: break

if __name__ == "__main__":
    main(*sys.argv[1:])
