"""Verify seeded mutants (from /tmp/mut/<id>/out/mK) against the current /repo HEAD in a scratch worktree and
store the confirmed ones under /verif/seeded/<id>_mK/ (patch.diff, demo.py, notes.md, meta.json)."""
import json, os, shutil, subprocess, sys

def sh(cmd, cwd=None, timeout=900):
    p = subprocess.run(cmd, shell=True, cwd=cwd, capture_output=True, text=True, timeout=timeout)
    return p.returncode, (p.stdout + p.stderr)

def main(ids):
    wt = "/tmp/seedchk"
    sh(f"git -C /repo worktree remove --force {wt}")
    rc, out = sh(f"git -C /repo worktree add -q --detach {wt} HEAD")
    assert rc == 0, out
    head = sh("git -C /repo rev-parse --short HEAD")[1].strip()
    props = {json.loads(l)["id"]: json.loads(l) for l in open("/verif/properties.jsonl")}
    for pid in ids:
        for m in ("m1", "m2"):
            src = f"/tmp/mut/{pid}/out/{m}"
            if not os.path.exists(f"{src}/patch.diff"):
                print(pid, m, "missing"); continue
            sh("git checkout -- . && git clean -fdq", cwd=wt)
            os.makedirs(f"{wt}/out/{m}", exist_ok=True)
            demo = open(f"{src}/demo.py").read().replace(f"/tmp/mut/{pid}/out/.pydeps", "/verif/build/.pydeps").replace(f"/tmp/mut/{pid}", wt)
            open(f"{wt}/out/{m}/demo.py", "w").write(demo)
            rc0, o0 = sh(f"PYTHONPATH={wt} /venv/bin/python out/{m}/demo.py", cwd=wt)
            rca, oa = sh(f"git apply {src}/patch.diff", cwd=wt)
            if rca != 0:
                rca, oa = sh(f"git apply -3 {src}/patch.diff", cwd=wt)
            res = dict(property=pid, mutant=m, head=head, applies=rca == 0, demo_passes_on_original=rc0 == 0)
            if rca == 0:
                rct, ot = sh("/venv/bin/python -m pytest -q -p no:cacheprovider 2>&1 | tail -1", cwd=wt)
                res["tests"] = ot.strip()
                rc1, o1 = sh(f"PYTHONPATH={wt} /venv/bin/python out/{m}/demo.py", cwd=wt)
                res["demo_fails_with_patch"] = rc1 != 0
                res["demo_output_tail"] = o1[-400:]
                patch = sh("git diff -- apischema", cwd=wt)[1]
            ok = res.get("applies") and res.get("demo_passes_on_original") and res.get("demo_fails_with_patch") and "283 passed" in res.get("tests", "")
            res["confirmed"] = bool(ok)
            print(pid, m, "CONFIRMED" if ok else "NOT CONFIRMED", {k: v for k, v in res.items() if k not in ("demo_output_tail",)})
            if ok:
                dst = f"/verif/seeded/{pid}_{m}"
                os.makedirs(dst, exist_ok=True)
                open(f"{dst}/patch.diff", "w").write(patch)
                open(f"{dst}/demo.py", "w").write(open(f"{src}/demo.py").read().replace(f"/tmp/mut/{pid}/out/.pydeps", "/verif/build/.pydeps").replace(f"/tmp/mut/{pid}", "<worktree>"))
                notes = open(f"{src}/notes.md").read() if os.path.exists(f"{src}/notes.md") else ""
                open(f"{dst}/notes.md", "w").write(notes)
                meta = dict(property=pid, breaks=props[pid]["title"], needs_to_manifest=notes[:1500],
                            verified=dict(head=head, applied_in="scratch worktree /tmp/seedchk (removed afterwards)",
                                          test_suite=res["tests"], demo_exit_on_original=0, demo_fails_with_patch=True,
                                          commands=[f"git apply patch.diff", "/venv/bin/python -m pytest -q -p no:cacheprovider",
                                                    "PYTHONPATH=<worktree> /venv/bin/python demo.py"]),
                            detected_by=None)
                json.dump(meta, open(f"{dst}/meta.json", "w"), indent=1)
    sh(f"git -C /repo worktree remove --force {wt}")

if __name__ == "__main__":
    main(sys.argv[1:] or [f"C{i:02d}" for i in range(1, 21)])
