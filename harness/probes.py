"""Model-free probes shared by several properties: features outside the Coq models (discriminated unions, late
registrations, dynamic conversions over default ones), checked directly against the statements on the implementation."""
import copy
from typing import Union
import json

from harness import pyrun

DISC_SRC = '''
from dataclasses import dataclass, field
from typing import Annotated, Union, Optional, List, Literal
from apischema import discriminator, alias

@dataclass
class A:
    a: int

@dataclass
class B:
    b: str
    c: bool = False

@dataclass
class T:                      # declares the discriminator property as a field
    type: str
    n: int = 0

@dataclass
class Slow:                   # not eligible to the simple-object fast path (alias != name)
    s: int = field(default=0, metadata=alias("S"))

@dataclass
class Cat:                    # several tags for one class, held by the discriminator field itself
    type: Literal["cat", "kitten"]
    lives: int = 9

@dataclass
class Dog:
    type: Literal["dog"]

Pet = Annotated[Union[Cat, Dog], discriminator("type")]
U = Annotated[Union[A, B], discriminator("type")]
U3 = Annotated[Union[A, B, T, Slow], discriminator("type", {"a": A, "b": B, "t": T, "slow": Slow})]

@discriminator("kind")
@dataclass
class Base:
    pass

@dataclass
class X(Base):
    x: int

@dataclass
class Y(Base):
    y: str = ""

@dataclass
class Holder:
    u: U
    items: List[U3] = field(default_factory=list)
    base: Optional[Base] = None
'''


def discriminator_cases(mod):
    U, U3, Base, Holder = mod.U, mod.U3, mod.Base, mod.Holder
    return [
        (U, {"type": "A", "a": 1}), (U, {"type": "B", "b": "x"}), (U, {"type": "B", "b": "x", "c": True}),
        (U3, {"type": "a", "a": 2}), (U3, {"type": "t", "n": 3}), (U3, {"type": "slow", "S": 4}), (U3, {"type": "b", "b": ""}),
        (mod.Pet, {"type": "cat"}), (mod.Pet, {"type": "kitten", "lives": 3}), (mod.Pet, {"type": "dog"}), (mod.Pet, {"type": "puppy"}),
        (Base, {"kind": "X", "x": 1}), (Base, {"kind": "Y"}), (Union[mod.X, mod.Y], {"kind": "Y", "y": "q"}),
        (Holder, {"u": {"type": "A", "a": 1}, "items": [{"type": "t", "n": 1}, {"type": "a", "a": 0}], "base": {"kind": "X", "x": 5}}),
        # invalid data
        (U, {"type": "C", "a": 1}), (U, {"a": 1}), (U, {"type": "A", "a": "no"}), (U3, {"type": "t", "n": "no"}),
        (Base, {"kind": "Z"}), (U, {"type": "A", "a": 1, "zz": 0}), (U, 3), (Holder, {"u": {"type": "B"}}),
    ]


def outcome(f):
    from apischema import ValidationError
    try:
        return ("ok", f())
    except ValidationError as e:
        return ("err", e.errors)
    except Exception as e:   # noqa
        return ("raise", type(e).__name__)


def discriminator_probe(R, aspects):
    """aspects: subset of {'mutation', 'options', 'dispatch'}"""
    pyrun.ensure_repo_on_path()
    import apischema.cache
    from apischema import deserialize, serialize, deserialization_method, ValidationError
    apischema.cache.reset()
    mod = pyrun.exec_module(DISC_SRC)
    try:
        for tp, d in discriminator_cases(mod):
            info = dict(source=DISC_SRC, type=str(tp), data=repr(d))
            for no_copy in (True, False):
                for addp in (False, True):
                    kw = dict(no_copy=no_copy, additional_properties=addp)
                    before = copy.deepcopy(d)
                    first = outcome(lambda: deserialize(tp, d, **kw))
                    R.count("discriminator_probe")
                    if first[0] == "raise":
                        R.violation(f"deserialize of a discriminated union raised {first[1]}", dict(info, options=kw))
                        continue
                    if "mutation" in aspects and d != before:
                        R.violation(f"deserialize modified its input (discriminated union): {before!r} became {d!r}", dict(info, options=kw))
                        if isinstance(d, dict):
                            d.clear(); d.update(before)
                        continue
                    if "options" in aspects:
                        again = outcome(lambda: deserialize(tp, d, **kw))
                        if repr(again) != repr(first):
                            R.violation("deserializing the same datum twice gives different results (discriminated union)",
                                        dict(info, options=kw, first=repr(first), second=repr(again)))
                        m = outcome(lambda: deserialization_method(tp, **kw)(d))
                        if repr(m) != repr(first):
                            R.violation("deserialization_method(T)(d) differs from deserialize(T, d) (discriminated union)",
                                        dict(info, options=kw, function=repr(first), method=repr(m)))
                        other = outcome(lambda: deserialize(tp, d, **dict(kw, no_copy=not no_copy)))
                        if repr(other) != repr(first):
                            R.violation("the result depends on no_copy (discriminated union)", dict(info, options=kw))
                    if "dispatch" in aspects and first[0] == "ok":
                        v = first[1]
                        out = outcome(lambda: serialize(tp, v, additional_properties=addp))
                        if out[0] != "ok":
                            R.violation(f"serialize of a discriminated union value failed: {out[1]}", info)
                            continue
                        # the value round-trips: the discriminator key is there, a field of that name keeps its value
                        back = outcome(lambda: deserialize(tp, copy.deepcopy(out[1]), additional_properties=addp))
                        if back[0] != "ok" or back[1] != v:
                            R.violation(f"a discriminated union value does not round-trip: serialize gives {out[1]!r}, which "
                                        f"deserializes to {back[1]!r}", info)
                        if isinstance(d, dict) and isinstance(out[1], dict):
                            for k, x in d.items():
                                if k in out[1] and not isinstance(x, (dict, list)) and out[1][k] != x and not addp:
                                    R.violation(f"serialize changed the value of {k!r}: {out[1][k]!r} instead of {x!r}", info)
    finally:
        pyrun.drop_module(mod)
        apischema.cache.reset()


LATE_SRC = '''
from dataclasses import dataclass, field
from typing import List, Optional

@dataclass
class Point:
    x: int
    y: int

@dataclass
class Polygon:
    points: List[Point] = field(default_factory=list)
    name: Optional[str] = None

@dataclass
class Foo:
    a: int = 0
'''


def late_conversion_round_trip(R):
    """C05: conversions registered after a first use are used on both sides"""
    pyrun.ensure_repo_on_path()
    import apischema.cache
    from apischema import deserialize, serialize, serializer, deserializer
    from apischema.conversions import reset_deserializers, reset_serializer
    apischema.cache.reset()
    mod = pyrun.exec_module(LATE_SRC)
    Point, Polygon = mod.Point, mod.Polygon
    v = Polygon([Point(1, 2), Point(3, 4)], "p")
    info = dict(source=LATE_SRC)
    try:
        for step in ("before", "registered", "reset"):
            if step == "registered":
                def to_str(p: Point) -> str:
                    return f"{p.x},{p.y}"

                def from_str(s: str) -> Point:
                    a, b = s.split(",")
                    return Point(int(a), int(b))
                serializer(to_str)
                deserializer(from_str)
            elif step == "reset":
                reset_serializer(Point)
                reset_deserializers(Point)
            R.count("late_registration_round_trip")
            try:
                out = serialize(Polygon, v)
                back = deserialize(Polygon, out)
            except Exception as e:
                R.violation(f"round trip fails after conversions were {step} ({type(e).__name__}: {str(e)[:150]}): serialize and "
                            "deserialize do not use the same conversions", dict(info, step=step))
                continue
            if back != v:
                R.violation(f"deserialize(serialize(v)) differs from v after conversions were {step}", dict(info, step=step, output=out))
            expected_points = ["1,2", "3,4"] if step == "registered" else [{"x": 1, "y": 2}, {"x": 3, "y": 4}]
            if out.get("points") != expected_points:
                R.violation(f"serialize ignores the conversions {step} after a first use: {out!r}", dict(info, step=step))
    finally:
        try:
            reset_serializer(Point)
            reset_deserializers(Point)
        except Exception:
            pass
        pyrun.drop_module(mod)
        apischema.cache.reset()


def late_serialized_method(R):
    """C07: a serialized method registered after a first serialization is emitted, as the schema says"""
    pyrun.ensure_repo_on_path()
    import apischema.cache
    import jsonschema
    from apischema import serialize, serialized
    from apischema.json_schema import serialization_schema
    apischema.cache.reset()
    mod = pyrun.exec_module(LATE_SRC)
    Foo = mod.Foo
    info = dict(source=LATE_SRC)
    try:
        serialize(Foo, Foo(1))

        @serialized
        def double(foo: Foo) -> int:
            return foo.a * 2
        R.count("late_serialized_method")
        out = serialize(Foo, Foo(1))
        doc = json.loads(json.dumps(serialization_schema(Foo, with_schema=False)))
        errors = list(jsonschema.Draft202012Validator(doc).iter_errors(out))
        if errors:
            R.violation(f"after a serialized method was registered, serialize output {out!r} is invalid against "
                        f"serialization_schema: {errors[0].message[:120]}", dict(info, schema=doc, output=out))
    finally:
        pyrun.drop_module(mod)
        apischema.cache.reset()


CONV_SRC = '''
from dataclasses import dataclass
from typing import List
from apischema import serializer

@dataclass
class Point:
    x: int
    y: int

class Wrapper:
    def __init__(self, p):
        self.p = p

@serializer
def unwrap(w: Wrapper) -> Point:
    return w.p

def point_to_str(p: Point) -> str:
    return f"{p.x},{p.y}"

@dataclass
class Holder:
    w: Wrapper
    ps: List[Point]
'''


def dynamic_over_default_conversion(R):
    """C07 / C12: a dynamic conversion does not reach the target of a default conversion of a non-collection class, in
    serialize exactly as in the schema"""
    pyrun.ensure_repo_on_path()
    import apischema.cache
    import jsonschema
    from apischema import serialize
    from apischema.json_schema import serialization_schema
    apischema.cache.reset()
    mod = pyrun.exec_module(CONV_SRC)
    info = dict(source=CONV_SRC)
    try:
        from typing import List
        cases = [(mod.Wrapper, mod.Wrapper(mod.Point(1, 2))), (List[mod.Wrapper], [mod.Wrapper(mod.Point(1, 2))]),
                 (mod.Point, mod.Point(3, 4)), (List[mod.Point], [mod.Point(3, 4)])]
        for tp, v in cases:
            for conv in (None, mod.point_to_str):
                kw = {} if conv is None else dict(conversion=conv)
                R.count("dynamic_over_default")
                try:
                    out = serialize(tp, v, **kw)
                    doc = json.loads(json.dumps(serialization_schema(tp, with_schema=False, **kw)))
                except Exception as e:
                    R.violation(f"{type(e).__name__} with a dynamic conversion over a default one: {e}", dict(info, type=str(tp)))
                    continue
                errors = list(jsonschema.Draft202012Validator(doc).iter_errors(out))
                if errors:
                    R.violation(f"serialize(T, v, conversion=...) = {out!r} is invalid against serialization_schema(T, "
                                f"conversion=...): {errors[0].message[:120]}", dict(info, type=str(tp), schema=doc, output=out))
    finally:
        pyrun.drop_module(mod)
        apischema.cache.reset()


FLAT_SRC = '''
from dataclasses import dataclass, field
from typing import Optional
from apischema import alias
from apischema.metadata import flatten

@dataclass
class Geo:
    lat_deg: float = 0.0

@dataclass
class Address:
    street_name: str
    zip_code: int = 0
    geo: Geo = field(default_factory=Geo, metadata=flatten)

@alias(lambda s: "p_" + s)
@dataclass
class Person:
    full_name: str
    address: Address = field(metadata=flatten)
    age_years: int = 0
'''


def flatten_probe(R):
    """flattened objects (two levels, class aliaser on the outer class): the keys serialize produces are the keys deserialize
    consumes, under every dynamic aliaser (C05 round trip, C11 one external name)"""
    pyrun.ensure_repo_on_path()
    import apischema.cache
    from apischema import deserialize, serialize, ValidationError
    from apischema.utils import to_camel_case
    apischema.cache.reset()
    mod = pyrun.exec_module(FLAT_SRC)
    info = dict(source=FLAT_SRC)
    try:
        v = mod.Person("n", mod.Address("s", 7, mod.Geo(1.5)), 3)
        for aname, al in (("identity", lambda s: s), ("camelCase", to_camel_case), ("custom", lambda s: s + "_x")):
            R.count("flatten_probe")
            out = serialize(mod.Person, v, aliaser=al)
            want = [al("p_full_name"), al("street_name"), al("zip_code"), al("lat_deg"), al("p_age_years")]
            if sorted(out) != sorted(want):
                R.violation(f"serialize keys {sorted(out)} differ from the external names {sorted(want)} (aliaser {aname}, flattened fields)", info)
                continue
            try:
                back = deserialize(mod.Person, out, aliaser=al)
            except ValidationError as e:
                R.violation(f"deserialize rejects what serialize produced with flattened fields (aliaser {aname}): {e.errors[:2]}",
                            dict(info, output=out))
                continue
            if back != v:
                R.violation(f"round trip through flattened fields differs (aliaser {aname}): {back!r}", dict(info, output=out))
            bad = dict(out)
            bad[al("street_name")] = 0
            bad[al("lat_deg")] = "x"
            try:
                deserialize(mod.Person, bad, aliaser=al)
                R.violation("invalid flattened data accepted", info)
            except ValidationError as e:
                locs = sorted(tuple(x["loc"]) for x in e.errors)
                if locs != sorted([(al("street_name"),), (al("lat_deg"),)]):
                    R.violation(f"error locations {locs} of flattened fields differ from the external names (aliaser {aname})", info)
    except Exception as e:
        R.violation(f"{type(e).__name__} in the flatten probe: {e}", info)
    finally:
        pyrun.drop_module(mod)
        apischema.cache.reset()


CONVX_SRC = '''
from dataclasses import dataclass
from typing import Generic, List, Optional, TypeVar, Annotated
from apischema import deserializer, serializer, schema
from apischema.conversions import Conversion, as_str

T = TypeVar("T")

class Money:
    def __init__(self, cents):
        self.cents = cents
    def __eq__(self, o):
        return type(o) is type(self) and o.cents == self.cents

class SubMoney(Money):
    pass

def money_cents(m: Money) -> int:
    return m.cents
serializer(Conversion(money_cents, source=Money, target=int))

class Code:
    def __init__(self, s):
        self.s = s
    def __str__(self):
        return self.s
    def __eq__(self, o):
        return type(o) is type(self) and o.s == self.s
as_str(Code)

class SubCode(Code):
    pass

class W(Generic[T]):
    def __init__(self, x):
        self.x = x
    def __eq__(self, o):
        return isinstance(o, W) and o.x == self.x

@deserializer
def wrap(x: T) -> W[T]:
    return W(x)

@dataclass
class Point:
    x: int

@schema(min_len=3)
class Slug:
    def __init__(self, s):
        self.s = s
    def __eq__(self, o):
        return isinstance(o, Slug) and o.s == self.s

@deserializer
def slug(s: str) -> Slug:
    return Slug(s)

class Cents:
    def __init__(self, n):
        self.n = n
    def __eq__(self, o):
        return isinstance(o, Cents) and o.n == self.n

@deserializer
def cents(n: int) -> Cents:
    return Cents(n)
'''


def conversion_extra_probe(R):
    """serializers given as Conversion objects are inherited; generic deserializers specialise their TypeVar source;
    constraints on a converted type are enforced on its source, as the schema says"""
    pyrun.ensure_repo_on_path()
    import apischema.cache
    import jsonschema
    from typing import List, Annotated, Optional
    from apischema import deserialize, serialize, ValidationError, schema
    from apischema.json_schema import deserialization_schema
    apischema.cache.reset()
    mod = pyrun.exec_module(CONVX_SRC)
    info = dict(source=CONVX_SRC)
    try:
        # serialize(T, v) == serialize(U, g(v)), subclasses inherit
        for tp, v, want in ((mod.Money, mod.Money(5), 5), (mod.SubMoney, mod.SubMoney(7), 7), (mod.Money, mod.SubMoney(8), 8),
                            (List[mod.SubMoney], [mod.SubMoney(1)], [1]), (mod.Code, mod.Code("a"), "a"), (mod.SubCode, mod.SubCode("b"), "b"),
                            (Optional[mod.SubCode], mod.SubCode("c"), "c")):
            R.count("serializer_inheritance_probe")
            got = outcome(lambda: serialize(tp, v))
            if got != ("ok", want):
                R.violation(f"serialize({tp}, instance of {type(v).__name__}) = {got!r}: a serializer registered as a Conversion object / "
                            f"as_str is not applied to the subclass (expected {want!r})", info)
        # generic deserializer: deserialize(W[X], d) == wrap(deserialize(X, d)), rejects what X rejects
        for arg, good, bad in ((int, 1, "a"), (str, "a", 1), (mod.Point, {"x": 1}, {"x": "no"}), (List[int], [1, 2], [1, "a"])):
            R.count("generic_deserializer_probe")
            tp = mod.W[arg]
            got = outcome(lambda: deserialize(tp, good))
            want = ("ok", mod.W(deserialize(arg, good)))
            if got != want:
                R.violation(f"deserialize(W[{arg}], {good!r}) = {got!r} differs from wrap(deserialize({arg}, d)) = {want!r}", info)
            got = outcome(lambda: deserialize(tp, bad))
            if got[0] != "err":
                R.violation(f"deserialize(W[{arg}], {bad!r}) = {got!r}: the source type of the generic deserializer is not specialised "
                            f"({arg} rejects this datum)", info)
        # constraints on converted types: deserialize agrees with the schema
        cases = [(mod.Slug, {}, ["ab", "abc", "", 3]), (Annotated[mod.Cents, schema(min=10)], {}, [5, 10, 50, "x"]),
                 (mod.Cents, dict(schema=schema(min=10, max=20)), [5, 15, 25]), (List[mod.Slug], {}, [["abc"], ["ab"], []]),
                 (Annotated[mod.Slug, schema(max_len=4)], {}, ["ab", "abc", "abcde"])]
        for tp, kw, data in cases:
            doc = json.loads(json.dumps(deserialization_schema(tp, with_schema=False, **kw)))
            for d in data:
                R.count("converted_constraints_probe")
                acc = outcome(lambda: deserialize(tp, d, **kw))[0] == "ok"
                valid = jsonschema.Draft202012Validator(doc).is_valid(d)
                if acc != valid:
                    R.violation(f"converted type {tp}: deserialize {'accepts' if acc else 'rejects'} {d!r} but the schema says "
                                f"{'valid' if valid else 'invalid'} (constraints of a converted type)", dict(info, schema=doc))
    except Exception as e:
        R.violation(f"{type(e).__name__} in the conversion probe: {e}", info)
    finally:
        pyrun.drop_module(mod)
        apischema.cache.reset()
