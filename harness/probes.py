"""Model-free probes shared by several properties: features outside the Coq models (discriminated unions, late
registrations, dynamic conversions over default ones), checked directly against the statements on the implementation."""
import copy
from typing import Union
import json

from harness import pyrun

DISC_SRC = '''
from dataclasses import dataclass, field
from typing import Annotated, Union, Optional, List, Literal
from apischema import discriminator, alias

@dataclass
class A:
    a: int

@dataclass
class B:
    b: str
    c: bool = False

@dataclass
class T:                      # declares the discriminator property as a field
    type: str
    n: int = 0

@dataclass
class Slow:                   # not eligible to the simple-object fast path (alias != name)
    s: int = field(default=0, metadata=alias("S"))

@dataclass
class Cat:                    # several tags for one class, held by the discriminator field itself
    type: Literal["cat", "kitten"]
    lives: int = 9

@dataclass
class Dog:
    type: Literal["dog"]

Pet = Annotated[Union[Cat, Dog], discriminator("type")]
U = Annotated[Union[A, B], discriminator("type")]
U3 = Annotated[Union[A, B, T, Slow], discriminator("type", {"a": A, "b": B, "t": T, "slow": Slow})]

@discriminator("kind")
@dataclass
class Base:
    pass

@dataclass
class X(Base):
    x: int

@dataclass
class Y(Base):
    y: str = ""

@dataclass
class Holder:
    u: U
    items: List[U3] = field(default_factory=list)
    base: Optional[Base] = None
'''


def discriminator_cases(mod):
    U, U3, Base, Holder = mod.U, mod.U3, mod.Base, mod.Holder
    return [
        (U, {"type": "A", "a": 1}), (U, {"type": "B", "b": "x"}), (U, {"type": "B", "b": "x", "c": True}),
        (U3, {"type": "a", "a": 2}), (U3, {"type": "t", "n": 3}), (U3, {"type": "slow", "S": 4}), (U3, {"type": "b", "b": ""}),
        (mod.Pet, {"type": "cat"}), (mod.Pet, {"type": "kitten", "lives": 3}), (mod.Pet, {"type": "dog"}), (mod.Pet, {"type": "puppy"}),
        (Base, {"kind": "X", "x": 1}), (Base, {"kind": "Y"}), (Union[mod.X, mod.Y], {"kind": "Y", "y": "q"}),
        (Holder, {"u": {"type": "A", "a": 1}, "items": [{"type": "t", "n": 1}, {"type": "a", "a": 0}], "base": {"kind": "X", "x": 5}}),
        # invalid data
        (U, {"type": "C", "a": 1}), (U, {"a": 1}), (U, {"type": "A", "a": "no"}), (U3, {"type": "t", "n": "no"}),
        (Base, {"kind": "Z"}), (U, {"type": "A", "a": 1, "zz": 0}), (U, 3), (Holder, {"u": {"type": "B"}}),
    ]


def outcome(f):
    from apischema import ValidationError
    try:
        return ("ok", f())
    except ValidationError as e:
        return ("err", e.errors)
    except Exception as e:   # noqa
        return ("raise", type(e).__name__)


def discriminator_probe(R, aspects):
    """aspects: subset of {'mutation', 'options', 'dispatch'}"""
    pyrun.ensure_repo_on_path()
    import apischema.cache
    from apischema import deserialize, serialize, deserialization_method, ValidationError
    apischema.cache.reset()
    mod = pyrun.exec_module(DISC_SRC)
    try:
        for tp, d in discriminator_cases(mod):
            info = dict(source=DISC_SRC, type=str(tp), data=repr(d))
            for no_copy in (True, False):
                for addp in (False, True):
                    kw = dict(no_copy=no_copy, additional_properties=addp)
                    before = copy.deepcopy(d)
                    first = outcome(lambda: deserialize(tp, d, **kw))
                    R.count("discriminator_probe")
                    if first[0] == "raise":
                        R.violation(f"deserialize of a discriminated union raised {first[1]}", dict(info, options=kw))
                        continue
                    if "mutation" in aspects and d != before:
                        R.violation(f"deserialize modified its input (discriminated union): {before!r} became {d!r}", dict(info, options=kw))
                        if isinstance(d, dict):
                            d.clear(); d.update(before)
                        continue
                    if "options" in aspects:
                        again = outcome(lambda: deserialize(tp, d, **kw))
                        if repr(again) != repr(first):
                            R.violation("deserializing the same datum twice gives different results (discriminated union)",
                                        dict(info, options=kw, first=repr(first), second=repr(again)))
                        m = outcome(lambda: deserialization_method(tp, **kw)(d))
                        if repr(m) != repr(first):
                            R.violation("deserialization_method(T)(d) differs from deserialize(T, d) (discriminated union)",
                                        dict(info, options=kw, function=repr(first), method=repr(m)))
                        other = outcome(lambda: deserialize(tp, d, **dict(kw, no_copy=not no_copy)))
                        if repr(other) != repr(first):
                            R.violation("the result depends on no_copy (discriminated union)", dict(info, options=kw))
                    if "coerce" in aspects:
                        # every datum accepted in strict mode is accepted with coerce=True, with an equal result; data whose
                        # leaves are written as numeric strings are accepted too, with the strict result of the plain datum
                        co = outcome(lambda: deserialize(tp, copy.deepcopy(d), coerce=True, **kw))
                        if first[0] == "ok" and (co[0] != "ok" or co[1] != first[1]):
                            R.violation(f"a datum accepted in strict mode gives {co!r} with coerce=True (discriminated union)",
                                        dict(info, options=kw, strict=repr(first)))
                        elif first[0] == "err" and co[0] == "raise":
                            R.violation(f"deserialize with coerce=True raised {co[1]} (discriminated union)", dict(info, options=kw))
                        if first[0] == "ok" and isinstance(d, dict):
                            def strs(x):
                                if isinstance(x, dict):
                                    return {k: strs(y) for k, y in x.items()}
                                if isinstance(x, list):
                                    return [strs(y) for y in x]
                                return str(x) if type(x) is int else x
                            co2 = outcome(lambda: deserialize(tp, strs(d), coerce=True, **kw))
                            if co2[0] != "ok" or co2[1] != first[1]:
                                R.violation(f"integers written as strings give {co2!r} with coerce=True where the plain datum gives "
                                            f"{first[1]!r} (discriminated union)", dict(info, options=kw))
                    if "dispatch" in aspects and first[0] == "ok":
                        v = first[1]
                        out = outcome(lambda: serialize(tp, v, additional_properties=addp))
                        if out[0] != "ok":
                            R.violation(f"serialize of a discriminated union value failed: {out[1]}", info)
                            continue
                        # the value round-trips: the discriminator key is there, a field of that name keeps its value
                        back = outcome(lambda: deserialize(tp, copy.deepcopy(out[1]), additional_properties=addp))
                        if back[0] != "ok" or back[1] != v:
                            R.violation(f"a discriminated union value does not round-trip: serialize gives {out[1]!r}, which "
                                        f"deserializes to {back[1]!r}", info)
                        if isinstance(d, dict) and isinstance(out[1], dict):
                            for k, x in d.items():
                                if k in out[1] and not isinstance(x, (dict, list)) and out[1][k] != x and not addp:
                                    R.violation(f"serialize changed the value of {k!r}: {out[1][k]!r} instead of {x!r}", info)
    finally:
        pyrun.drop_module(mod)
        apischema.cache.reset()


DISC_RT_SRC = DISC_SRC + '''
import re
from typing import Any, Dict
from apischema.metadata import properties

PT = Annotated[Union[A, B], discriminator("pet_type")]
PT3 = Annotated[Union[A, T, Slow], discriminator("pet_type", {"a_tag": A, "t_tag": T, "slow": Slow})]

@dataclass
class Tagged:                 # declares the discriminator property itself, under a name the aliaser changes
    pet_type: str
    n_legs: int = 4

PT4 = Annotated[Union[A, Tagged], discriminator("pet_type", {"A": A, "tagged": Tagged})]

@dataclass
class Open:                   # keeps its additional properties: the discriminator property is not one of them
    extra: Dict[str, Any] = field(default_factory=dict, metadata=properties)

@dataclass
class Pat:
    pat: Dict[str, Any] = field(default_factory=dict, metadata=properties(pattern=re.compile("^p")))

PT5 = Annotated[Union[Open, Pat], discriminator("pet_type")]

@discriminator("node_kind")
@dataclass
class Base2:
    pass

@dataclass
class X2(Base2):
    x_val: int = 0

@dataclass
class Y2(Base2):
    y_val: str = ""

@dataclass
class Y3(Y2):                 # a grandchild: its instances are Y2 instances too
    z_val: int = 0

PT6 = Annotated[Union[Y2, Y3, X2], discriminator("pet_type")]

@dataclass
class Holder2:
    first_pet: PT
    more_pets: List[PT3] = field(default_factory=list)
    base_node: Optional[Base2] = None
'''


def discriminator_round_trip_probe(R):
    """C05 over discriminated unions (Annotated and class-level, discriminator property declared or not) x aliasers: the value
    deserialized from a datum serializes to data that deserialize back to it (also through json), and that data holds every
    property of the datum with its value"""
    import json as _json
    from typing import Optional
    pyrun.ensure_repo_on_path()
    import apischema.cache
    from apischema import deserialize, serialize
    from apischema.utils import to_camel_case
    apischema.cache.reset()
    mod = pyrun.exec_module(DISC_RT_SRC)
    aliasers = [("identity", None), ("camelCase", to_camel_case), ("upper", str.upper), ("prefix", lambda s: "k_" + s)]

    def aliased(d, al):
        if isinstance(d, dict):
            return {al(k): aliased(x, al) for k, x in d.items()}
        if isinstance(d, list):
            return [aliased(x, al) for x in d]
        return d
    try:
        cases = [c for c in discriminator_cases(mod)] + [
            (mod.PT, {"pet_type": "A", "a": 1}), (mod.PT, {"pet_type": "B", "b": "x", "c": True}),
            (mod.PT3, {"pet_type": "a_tag", "a": 2}), (mod.PT3, {"pet_type": "t_tag", "type": "q", "n": 3}),
            (mod.PT3, {"pet_type": "slow", "S": 4}),
            (mod.PT4, {"pet_type": "tagged", "n_legs": 3}), (mod.PT4, {"pet_type": "A", "a": 0}),
            (mod.PT5, {"pet_type": "Open"}), (mod.PT5, {"pet_type": "Open", "zz": 1}), (mod.PT5, {"pet_type": "Pat"}),
            (mod.PT5, {"pet_type": "Pat", "pq": 2}),
            (mod.Base2, {"node_kind": "X2", "x_val": 1}), (mod.Base2, {"node_kind": "Y2"}),
            (Union[mod.X2, mod.Y2], {"node_kind": "Y2", "y_val": "q"}),
            (mod.Holder2, {"first_pet": {"pet_type": "A", "a": 1},
                           "more_pets": [{"pet_type": "t_tag", "type": "z", "n": 1}, {"pet_type": "a_tag", "a": 0}],
                           "base_node": {"node_kind": "X2", "x_val": 5}}),
        ]
        for tp, d in cases:
            for aname, al in aliasers:
                kw = {} if al is None else {"aliaser": al}
                datum = d if al is None else aliased(d, al)
                info = dict(source=DISC_RT_SRC, type=str(tp), data=repr(datum), aliaser=aname)
                first = outcome(lambda: deserialize(tp, copy.deepcopy(datum), **kw))
                if first[0] != "ok":
                    if first[0] == "raise":
                        R.violation(f"deserialize of a discriminated union raised {first[1]}", info)
                    continue                                    # the invalid data of the shared list
                R.count("discriminator_round_trip:" + aname)
                v = first[1]
                out = outcome(lambda: serialize(tp, v, **kw))
                if out[0] != "ok":
                    R.violation(f"serialize of a discriminated union value failed: {out[1]}", info)
                    continue
                for label, data2 in (("", out[1]), (" through json", _json.loads(_json.dumps(out[1])))):
                    back = outcome(lambda: deserialize(tp, copy.deepcopy(data2), **kw))
                    if back[0] != "ok" or back[1] != v:
                        R.violation(f"a discriminated union value does not round-trip{label} (aliaser {aname}): serialize gives "
                                    f"{out[1]!r}, which deserializes to {back[1]!r}", dict(info, value=repr(v)))
                        break
                else:
                    # dual direction: the serialized data hold every property of the accepted datum
                    def covered(a, b):
                        if isinstance(a, dict) and isinstance(b, dict):
                            return all(k in b and covered(x, b[k]) for k, x in a.items())
                        if isinstance(a, list) and isinstance(b, list):
                            return len(a) == len(b) and all(covered(x, y) for x, y in zip(a, b))
                        return a == b
                    if not covered(datum, out[1]):
                        R.violation(f"serialize(deserialize(d)) does not hold d (discriminated union, aliaser {aname}): "
                                    f"{datum!r} became {out[1]!r}", info)
        # value first: values no datum above produces (an empty additional-properties dict next to the discriminator)
        values = [(mod.PT5, mod.Open()), (mod.PT5, mod.Open({"zz": 1})), (mod.PT5, mod.Pat()), (mod.PT5, mod.Pat({"pq": [1]})),
                  (mod.PT4, mod.Tagged("tagged", 3)), (mod.PT, mod.B("x", True)), (mod.Base2, mod.Y2("q")),
                  (mod.Base2, mod.Y3("q", 3)), (mod.PT6, mod.Y3("r", 4)), (mod.PT6, mod.Y2("s")), (Optional[mod.Base2], mod.Y3()),
                  (mod.Holder2, mod.Holder2(mod.A(1), [mod.Slow(2), mod.T("t", 1)], mod.X2(7)))]
        for tp, v in values:
            for aname, al in aliasers:
                kw = {} if al is None else {"aliaser": al}
                info = dict(source=DISC_RT_SRC, type=str(tp), value=repr(v), aliaser=aname)
                R.count("discriminator_round_trip_value:" + aname)
                out = outcome(lambda: serialize(tp, v, **kw))
                if out[0] != "ok":
                    R.violation(f"serialize of a discriminated union value failed: {out[1]}", info)
                    continue
                back = outcome(lambda: deserialize(tp, _json.loads(_json.dumps(out[1])), **kw))
                if back[0] != "ok" or back[1] != v:
                    R.violation(f"a discriminated union value does not round-trip (aliaser {aname}): {v!r} serializes to {out[1]!r}, "
                                f"which deserializes to {back[1]!r}", info)
    finally:
        pyrun.drop_module(mod)
        apischema.cache.reset()


def literal_equal_values_probe(R):
    """Literal types holding values that are equal for Python but distinct as JSON (1 / True, 0 / False): each listed value is
    accepted as itself, with its own class; nothing else is"""
    pyrun.ensure_repo_on_path()
    import apischema.cache
    from typing import List, Literal, Optional
    from apischema import deserialize, serialize, ValidationError
    apischema.cache.reset()
    try:
        for values in ((1, True), (0, False, "a"), (False, 0), (1, "1", True), (2, True)):
            T = Literal[values]            # noqa
            for wrap, mk in ((lambda t: t, lambda d: d), (lambda t: List[t], lambda d: [d]), (lambda t: Optional[t], lambda d: d)):
                for d in (0, 1, 2, True, False, "a", "1", 1.0, None):
                    R.count("literal_equal_values_probe")
                    want = any(type(d) is type(v) and d == v for v in values) or (d is None and wrap(int) == Optional[int])
                    info = dict(type=f"{wrap(T)}", data=repr(mk(d)))
                    try:
                        got = deserialize(wrap(T), mk(d))
                    except ValidationError:
                        if want:
                            R.violation(f"deserialize({wrap(T)}, {mk(d)!r}) rejects a listed value", info)
                        continue
                    except Exception as e:   # noqa
                        R.violation(f"deserialize({wrap(T)}, {mk(d)!r}) raised {type(e).__name__}: {e}", info)
                        continue
                    inner = got[0] if isinstance(got, list) else got
                    if not want:
                        R.violation(f"deserialize({wrap(T)}, {mk(d)!r}) accepts a value that is not listed: {got!r}", info)
                    elif type(inner) is not type(d) or inner != d:
                        R.violation(f"deserialize({wrap(T)}, {mk(d)!r}) = {got!r}: not the listed value itself", info)
                    elif serialize(wrap(T), got) != mk(d) or type(serialize(T, inner)) is not type(d):
                        R.violation(f"serialize({wrap(T)}, {got!r}) = {serialize(wrap(T), got)!r} differs from the datum {mk(d)!r}", info)
    finally:
        apischema.cache.reset()


LATE_SRC = '''
from dataclasses import dataclass, field
from typing import List, Optional

@dataclass
class Point:
    x: int
    y: int

@dataclass
class Polygon:
    points: List[Point] = field(default_factory=list)
    name: Optional[str] = None

@dataclass
class Foo:
    a: int = 0
'''


def late_conversion_round_trip(R):
    """C05: conversions registered after a first use are used on both sides"""
    pyrun.ensure_repo_on_path()
    import apischema.cache
    from apischema import deserialize, serialize, serializer, deserializer
    from apischema.conversions import reset_deserializers, reset_serializer
    apischema.cache.reset()
    mod = pyrun.exec_module(LATE_SRC)
    Point, Polygon = mod.Point, mod.Polygon
    v = Polygon([Point(1, 2), Point(3, 4)], "p")
    info = dict(source=LATE_SRC)
    try:
        for step in ("before", "registered", "reset"):
            if step == "registered":
                def to_str(p: Point) -> str:
                    return f"{p.x},{p.y}"

                def from_str(s: str) -> Point:
                    a, b = s.split(",")
                    return Point(int(a), int(b))
                serializer(to_str)
                deserializer(from_str)
            elif step == "reset":
                reset_serializer(Point)
                reset_deserializers(Point)
            R.count("late_registration_round_trip")
            try:
                out = serialize(Polygon, v)
                back = deserialize(Polygon, out)
            except Exception as e:
                R.violation(f"round trip fails after conversions were {step} ({type(e).__name__}: {str(e)[:150]}): serialize and "
                            "deserialize do not use the same conversions", dict(info, step=step))
                continue
            if back != v:
                R.violation(f"deserialize(serialize(v)) differs from v after conversions were {step}", dict(info, step=step, output=out))
            expected_points = ["1,2", "3,4"] if step == "registered" else [{"x": 1, "y": 2}, {"x": 3, "y": 4}]
            if out.get("points") != expected_points:
                R.violation(f"serialize ignores the conversions {step} after a first use: {out!r}", dict(info, step=step))
    finally:
        try:
            reset_serializer(Point)
            reset_deserializers(Point)
        except Exception:
            pass
        pyrun.drop_module(mod)
        apischema.cache.reset()


def late_serialized_method(R):
    """C07: a serialized method registered after a first serialization is emitted, as the schema says"""
    pyrun.ensure_repo_on_path()
    import apischema.cache
    import jsonschema
    from apischema import serialize, serialized
    from apischema.json_schema import serialization_schema
    apischema.cache.reset()
    mod = pyrun.exec_module(LATE_SRC)
    Foo = mod.Foo
    info = dict(source=LATE_SRC)
    try:
        serialize(Foo, Foo(1))

        @serialized
        def double(foo: Foo) -> int:
            return foo.a * 2
        R.count("late_serialized_method")
        out = serialize(Foo, Foo(1))
        doc = json.loads(json.dumps(serialization_schema(Foo, with_schema=False)))
        errors = list(jsonschema.Draft202012Validator(doc).iter_errors(out))
        if errors:
            R.violation(f"after a serialized method was registered, serialize output {out!r} is invalid against "
                        f"serialization_schema: {errors[0].message[:120]}", dict(info, schema=doc, output=out))
    finally:
        pyrun.drop_module(mod)
        apischema.cache.reset()


CONV_SRC = '''
from dataclasses import dataclass
from typing import List
from apischema import serializer

@dataclass
class Point:
    x: int
    y: int

class Wrapper:
    def __init__(self, p):
        self.p = p

@serializer
def unwrap(w: Wrapper) -> Point:
    return w.p

def point_to_str(p: Point) -> str:
    return f"{p.x},{p.y}"

@dataclass
class Holder:
    w: Wrapper
    ps: List[Point]
'''


def dynamic_over_default_conversion(R):
    """C07 / C12: a dynamic conversion does not reach the target of a default conversion of a non-collection class, in
    serialize exactly as in the schema"""
    pyrun.ensure_repo_on_path()
    import apischema.cache
    import jsonschema
    from apischema import serialize
    from apischema.json_schema import serialization_schema
    apischema.cache.reset()
    mod = pyrun.exec_module(CONV_SRC)
    info = dict(source=CONV_SRC)
    try:
        from typing import List
        cases = [(mod.Wrapper, mod.Wrapper(mod.Point(1, 2))), (List[mod.Wrapper], [mod.Wrapper(mod.Point(1, 2))]),
                 (mod.Point, mod.Point(3, 4)), (List[mod.Point], [mod.Point(3, 4)])]
        for tp, v in cases:
            for conv in (None, mod.point_to_str):
                kw = {} if conv is None else dict(conversion=conv)
                R.count("dynamic_over_default")
                try:
                    out = serialize(tp, v, **kw)
                    doc = json.loads(json.dumps(serialization_schema(tp, with_schema=False, **kw)))
                except Exception as e:
                    R.violation(f"{type(e).__name__} with a dynamic conversion over a default one: {e}", dict(info, type=str(tp)))
                    continue
                errors = list(jsonschema.Draft202012Validator(doc).iter_errors(out))
                if errors:
                    R.violation(f"serialize(T, v, conversion=...) = {out!r} is invalid against serialization_schema(T, "
                                f"conversion=...): {errors[0].message[:120]}", dict(info, type=str(tp), schema=doc, output=out))
    finally:
        pyrun.drop_module(mod)
        apischema.cache.reset()


FLAT_SRC = '''
from dataclasses import dataclass, field
from typing import Optional
from apischema import alias
from apischema.metadata import flatten

@dataclass
class Geo:
    lat_deg: float = 0.0

@dataclass
class Address:
    street_name: str
    zip_code: int = 0
    geo: Geo = field(default_factory=Geo, metadata=flatten)

@alias(lambda s: "p_" + s)
@dataclass
class Person:
    full_name: str
    address: Address = field(metadata=flatten)
    age_years: int = 0
'''


def flatten_probe(R):
    """flattened objects (two levels, class aliaser on the outer class): the keys serialize produces are the keys deserialize
    consumes, under every dynamic aliaser (C05 round trip, C11 one external name)"""
    pyrun.ensure_repo_on_path()
    import apischema.cache
    from apischema import deserialize, serialize, ValidationError
    from apischema.utils import to_camel_case
    apischema.cache.reset()
    mod = pyrun.exec_module(FLAT_SRC)
    info = dict(source=FLAT_SRC)
    try:
        v = mod.Person("n", mod.Address("s", 7, mod.Geo(1.5)), 3)
        for aname, al in (("identity", lambda s: s), ("camelCase", to_camel_case), ("custom", lambda s: s + "_x")):
            R.count("flatten_probe")
            out = serialize(mod.Person, v, aliaser=al)
            want = [al("p_full_name"), al("street_name"), al("zip_code"), al("lat_deg"), al("p_age_years")]
            if sorted(out) != sorted(want):
                R.violation(f"serialize keys {sorted(out)} differ from the external names {sorted(want)} (aliaser {aname}, flattened fields)", info)
                continue
            try:
                back = deserialize(mod.Person, out, aliaser=al)
            except ValidationError as e:
                R.violation(f"deserialize rejects what serialize produced with flattened fields (aliaser {aname}): {e.errors[:2]}",
                            dict(info, output=out))
                continue
            if back != v:
                R.violation(f"round trip through flattened fields differs (aliaser {aname}): {back!r}", dict(info, output=out))
            bad = dict(out)
            bad[al("street_name")] = 0
            bad[al("lat_deg")] = "x"
            try:
                deserialize(mod.Person, bad, aliaser=al)
                R.violation("invalid flattened data accepted", info)
            except ValidationError as e:
                locs = sorted(tuple(x["loc"]) for x in e.errors)
                if locs != sorted([(al("street_name"),), (al("lat_deg"),)]):
                    R.violation(f"error locations {locs} of flattened fields differ from the external names (aliaser {aname})", info)
    except Exception as e:
        R.violation(f"{type(e).__name__} in the flatten probe: {e}", info)
    finally:
        pyrun.drop_module(mod)
        apischema.cache.reset()


CONVX_SRC = '''
from dataclasses import dataclass
from typing import Generic, List, Optional, TypeVar, Annotated
from apischema import deserializer, serializer, schema
from apischema.conversions import Conversion, as_str

T = TypeVar("T")

class Money:
    def __init__(self, cents):
        self.cents = cents
    def __eq__(self, o):
        return type(o) is type(self) and o.cents == self.cents

class SubMoney(Money):
    pass

def money_cents(m: Money) -> int:
    return m.cents
serializer(Conversion(money_cents, source=Money, target=int))

class Code:
    def __init__(self, s):
        self.s = s
    def __str__(self):
        return self.s
    def __eq__(self, o):
        return type(o) is type(self) and o.s == self.s
as_str(Code)

class SubCode(Code):
    pass

class W(Generic[T]):
    def __init__(self, x):
        self.x = x
    def __eq__(self, o):
        return isinstance(o, W) and o.x == self.x

@deserializer
def wrap(x: T) -> W[T]:
    return W(x)

@dataclass
class Point:
    x: int

@schema(min_len=3)
class Slug:
    def __init__(self, s):
        self.s = s
    def __eq__(self, o):
        return isinstance(o, Slug) and o.s == self.s

@deserializer
def slug(s: str) -> Slug:
    return Slug(s)

class Cents:
    def __init__(self, n):
        self.n = n
    def __eq__(self, o):
        return isinstance(o, Cents) and o.n == self.n

@deserializer
def cents(n: int) -> Cents:
    return Cents(n)
'''


def conversion_extra_probe(R):
    """serializers given as Conversion objects are inherited; generic deserializers specialise their TypeVar source;
    constraints on a converted type are enforced on its source, as the schema says"""
    pyrun.ensure_repo_on_path()
    import apischema.cache
    import jsonschema
    from typing import List, Annotated, Optional
    from apischema import deserialize, serialize, ValidationError, schema
    from apischema.json_schema import deserialization_schema
    apischema.cache.reset()
    mod = pyrun.exec_module(CONVX_SRC)
    info = dict(source=CONVX_SRC)
    try:
        # serialize(T, v) == serialize(U, g(v)), subclasses inherit
        for tp, v, want in ((mod.Money, mod.Money(5), 5), (mod.SubMoney, mod.SubMoney(7), 7), (mod.Money, mod.SubMoney(8), 8),
                            (List[mod.SubMoney], [mod.SubMoney(1)], [1]), (mod.Code, mod.Code("a"), "a"), (mod.SubCode, mod.SubCode("b"), "b"),
                            (Optional[mod.SubCode], mod.SubCode("c"), "c")):
            R.count("serializer_inheritance_probe")
            got = outcome(lambda: serialize(tp, v))
            if got != ("ok", want):
                R.violation(f"serialize({tp}, instance of {type(v).__name__}) = {got!r}: a serializer registered as a Conversion object / "
                            f"as_str is not applied to the subclass (expected {want!r})", info)
        # generic deserializer: deserialize(W[X], d) == wrap(deserialize(X, d)), rejects what X rejects
        for arg, good, bad in ((int, 1, "a"), (str, "a", 1), (mod.Point, {"x": 1}, {"x": "no"}), (List[int], [1, 2], [1, "a"])):
            R.count("generic_deserializer_probe")
            tp = mod.W[arg]
            got = outcome(lambda: deserialize(tp, good))
            want = ("ok", mod.W(deserialize(arg, good)))
            if got != want:
                R.violation(f"deserialize(W[{arg}], {good!r}) = {got!r} differs from wrap(deserialize({arg}, d)) = {want!r}", info)
            got = outcome(lambda: deserialize(tp, bad))
            if got[0] != "err":
                R.violation(f"deserialize(W[{arg}], {bad!r}) = {got!r}: the source type of the generic deserializer is not specialised "
                            f"({arg} rejects this datum)", info)
        # constraints on converted types: deserialize agrees with the schema
        cases = [(mod.Slug, {}, ["ab", "abc", "", 3]), (Annotated[mod.Cents, schema(min=10)], {}, [5, 10, 50, "x"]),
                 (mod.Cents, dict(schema=schema(min=10, max=20)), [5, 15, 25]), (List[mod.Slug], {}, [["abc"], ["ab"], []]),
                 (Annotated[mod.Slug, schema(max_len=4)], {}, ["ab", "abc", "abcde"])]
        for tp, kw, data in cases:
            doc = json.loads(json.dumps(deserialization_schema(tp, with_schema=False, **kw)))
            for d in data:
                R.count("converted_constraints_probe")
                acc = outcome(lambda: deserialize(tp, d, **kw))[0] == "ok"
                valid = jsonschema.Draft202012Validator(doc).is_valid(d)
                if acc != valid:
                    R.violation(f"converted type {tp}: deserialize {'accepts' if acc else 'rejects'} {d!r} but the schema says "
                                f"{'valid' if valid else 'invalid'} (constraints of a converted type)", dict(info, schema=doc))
    except Exception as e:
        R.violation(f"{type(e).__name__} in the conversion probe: {e}", info)
    finally:
        pyrun.drop_module(mod)
        apischema.cache.reset()


# ---------------------------------------------------------------- schemas of discriminated unions (C06 / C17)

def _resolve(root, ref):
    assert ref.startswith("#/"), ref
    node = root
    for part in ref[2:].split("/"):
        node = node[part]
    return node


def _walk_schemas(node, path=()):
    if isinstance(node, dict):
        yield path, node
        for k, v in node.items():
            yield from _walk_schemas(v, path + (k,))
    elif isinstance(node, list):
        for i, v in enumerate(node):
            yield from _walk_schemas(v, path + (i,))


def same_instance_ref_cycle(root):
    """a definition that references itself through applicators working on the same instance (allOf / anyOf / oneOf / $ref):
    validating against it never terminates"""
    defs = root.get("$defs", {})

    def direct(node):
        out = set()
        if isinstance(node, dict):
            if isinstance(node.get("$ref"), str) and node["$ref"].startswith("#/$defs/"):
                out.add(node["$ref"][len("#/$defs/"):])
            for k in ("allOf", "anyOf", "oneOf"):
                for sub in node.get(k, []) if isinstance(node.get(k), list) else []:
                    out |= direct(sub)
        return out
    edges = {name: direct(d) for name, d in defs.items()}
    for start in edges:
        seen, todo = set(), list(edges[start])
        while todo:
            n = todo.pop()
            if n == start:
                return start
            if n not in seen and n in edges:
                seen.add(n)
                todo.extend(edges[n])
    return None


def discriminator_aware(root, closed=False):
    """Rewrite a generated schema into a standard JSON Schema carrying the OpenAPI meaning of `discriminator`: the property is
    required, its value selects the alternative (explicit mapping, else the definition name), and the selected alternative
    tolerates the property even when it forbids additional ones.  With closed=True the children of a class-level discriminated
    class (allOf[parent, own properties], which apischema always leaves open) forbid unevaluated properties.  Returns a new
    document."""
    root = copy.deepcopy(root)
    defs = root.setdefault("$defs", {})
    extra = {}

    def tolerant(name, prop):
        """copy of definition `name` accepting the discriminator property"""
        new = f"{name}~with~{prop}"
        if new not in extra:
            d = copy.deepcopy(defs[name])
            targets = [d] + [s for s in d.get("allOf", []) if isinstance(s, dict) and "$ref" not in s]
            for tgt in targets:
                if tgt.get("type") == "object" or "properties" in tgt:
                    tgt.setdefault("properties", {}).setdefault(prop, {})
            if closed and any(isinstance(x, dict) and "$ref" in x for x in d.get("allOf", [])):
                d["unevaluatedProperties"] = False
            extra[new] = d
        return {"$ref": f"#/$defs/{new}"}

    def inherited(alt_names):
        """class-level discriminator: every alternative is allOf[{$ref parent}, ...] with the same parent holding the keyword"""
        parents = set()
        for n in alt_names:
            all_of = defs.get(n, {}).get("allOf") or []
            refs = [s["$ref"][len("#/$defs/"):] for s in all_of if isinstance(s, dict) and "$ref" in s]
            parents |= {p for p in refs if "discriminator" in defs.get(p, {})}
            if not refs:
                return None
        return defs[parents.pop()]["discriminator"] if len(parents) == 1 else None

    for path, node in list(_walk_schemas(root)):
        alts = node.get("oneOf")
        if not isinstance(alts, list) or not all(isinstance(a, dict) and set(a) == {"$ref"} for a in alts):
            continue
        names = [a["$ref"][len("#/$defs/"):] for a in alts]
        disc = node.get("discriminator") or inherited(names)
        if not disc:
            continue
        prop = disc["propertyName"]
        by_ref = {ref[len("#/$defs/"):]: key for key, ref in disc.get("mapping", {}).items()}
        keys = {}
        for n in names:
            if n in by_ref:
                for key, ref in disc["mapping"].items():
                    if ref == f"#/$defs/{n}":
                        keys[key] = n
            else:
                keys[n] = n
        node.pop("oneOf")
        node.pop("discriminator", None)
        node["type"] = "object"
        node["required"] = [prop]
        node["properties"] = {prop: {"enum": sorted(keys)}}
        node["allOf"] = [{"if": {"properties": {prop: {"const": key}}, "required": [prop]}, "then": tolerant(n, prop)}
                         for key, n in keys.items()]
    defs.update(extra)
    return root


def discriminator_schema_probe(R, aspects):
    """aspects: subset of {'agree' (C06), 'refs' (C17)}.
    agree: deserialize accepts d  <=>  d is valid against deserialization_schema, on discriminated unions (annotated and
    class-level), under standard semantics; a disagreement that disappears once `discriminator` is given its OpenAPI meaning
    is the known finding, any other is a violation.
    refs: generation succeeds for unions, parents and children, the document is valid against its meta-schema, every $ref
    resolves and no definition references itself on the same instance."""
    pyrun.ensure_repo_on_path()
    import apischema.cache
    import jsonschema
    from typing import List, Optional
    from apischema import deserialize, ValidationError
    from apischema.json_schema import deserialization_schema, serialization_schema
    apischema.cache.reset()
    mod = pyrun.exec_module(DISC_SRC)
    try:
        if "refs" in aspects:
            roots = [mod.U, mod.U3, mod.Pet, mod.Base, mod.X, mod.Y, mod.Holder, Union[mod.X, mod.Y], List[mod.Base],
                     Optional[mod.X], List[mod.U]]
            for tp in roots:
                for gen in (deserialization_schema, serialization_schema):
                    for all_refs in (False, True):
                        R.count("discriminator_schema_refs")
                        info = dict(source=DISC_SRC, type=str(tp), function=gen.__name__, all_refs=all_refs)
                        try:
                            doc = gen(tp, all_refs=all_refs)
                        except Exception as e:   # noqa
                            R.violation(f"{gen.__name__}({tp}, all_refs={all_refs}) raised {type(e).__name__}: {e}", info)
                            continue
                        try:
                            jsonschema.Draft202012Validator.check_schema(doc)
                        except Exception as e:   # noqa
                            R.violation(f"schema of {tp} is not valid against the 2020-12 meta-schema: {e}", dict(info, schema=doc))
                        for _, node in _walk_schemas(doc):
                            ref = node.get("$ref")
                            if isinstance(ref, str):
                                try:
                                    _resolve(doc, ref)
                                except Exception:   # noqa
                                    R.violation(f"$ref {ref} of the schema of {tp} does not resolve", dict(info, schema=doc))
                            # the targets of a discriminator mapping are references as well, and the members of a discriminated
                            # union are extracted whatever all_refs says
                            disc = node.get("discriminator")
                            if isinstance(disc, dict):
                                for key, ref in (disc.get("mapping") or {}).items():
                                    try:
                                        _resolve(doc, ref)
                                    except Exception:   # noqa
                                        R.violation(f"discriminator mapping {key!r} -> {ref} of the schema of {tp} does not resolve",
                                                    dict(info, schema=doc))
                                alts = node.get("oneOf") or node.get("anyOf") or []
                                if alts and not all(isinstance(a, dict) and "$ref" in a for a in alts):
                                    R.violation(f"a member of the discriminated union {tp} is not given by reference "
                                                f"(all_refs={all_refs})", dict(info, schema=doc))
                        cyc = same_instance_ref_cycle(doc)
                        if cyc:
                            R.violation(f"definition {cyc} of the schema of {tp} references itself on the same instance "
                                        f"(validation does not terminate)", dict(info, schema=doc))
        if "agree" in aspects:
            cases = list(discriminator_cases(mod))
            more = []
            for tp, d in cases:
                if isinstance(d, dict):
                    for k in list(d):
                        more.append((tp, {kk: v for kk, v in d.items() if kk != k}))
                        more.append((tp, {**d, k: None}))
                    more.append((tp, {**d, "extra": 1}))
            for tp, d in cases + more:
                for addp in (False, True):
                    R.count("discriminator_schema_agree")
                    info = dict(source=DISC_SRC, type=str(tp), data=d, additional_properties=addp)
                    try:
                        doc = deserialization_schema(tp, additional_properties=addp)
                    except Exception as e:   # noqa
                        R.violation(f"deserialization_schema({tp}) raised {type(e).__name__}: {e}", info)
                        continue
                    try:
                        deserialize(tp, copy.deepcopy(d), additional_properties=addp)
                        acc = True
                    except ValidationError:
                        acc = False
                    try:
                        std = jsonschema.Draft202012Validator(doc).is_valid(d)
                    except RecursionError:
                        std = "does not terminate"
                    if std == acc:
                        continue
                    try:
                        oas = jsonschema.Draft202012Validator(discriminator_aware(doc)).is_valid(d)
                    except Exception as e:   # noqa
                        oas = f"{type(e).__name__}: {e}"
                    if oas == acc and R.known_match("discriminator-keyword-semantics"):
                        continue
                    if not addp and oas is True and acc is False:
                        try:
                            oas = jsonschema.Draft202012Validator(discriminator_aware(doc, closed=True)).is_valid(d)
                        except Exception as e:   # noqa
                            oas = f"{type(e).__name__}: {e}"
                        if oas == acc and R.known_match("inherited-discriminator-open-children"):
                            continue
                    R.violation(f"deserialize {'accepts' if acc else 'rejects'} {d!r} for a discriminated union but its schema says "
                                f"{std} (standard semantics) / {oas} (with the OpenAPI meaning of discriminator)", dict(info, schema=doc))
                    if len(R.violations) > 5:
                        return
        if "ser_agree" in aspects:
            from apischema import serialize
            from apischema.json_schema import serialization_schema
            from apischema.utils import to_camel_case
            for tp, d in discriminator_cases(mod):
                for aname, al in (("identity", None), ("camelCase", to_camel_case), ("prefix", lambda s: "k_" + s)):
                    kw = {} if al is None else {"aliaser": al}
                    try:
                        v = deserialize(tp, copy.deepcopy(d))
                    except ValidationError:
                        continue
                    for addp in (False, True):
                        R.count("discriminator_ser_schema")
                        info = dict(source=DISC_SRC, type=str(tp), value=repr(v), additional_properties=addp, aliaser=aname)
                        try:
                            out = serialize(tp, v, additional_properties=addp, **kw)
                            doc = serialization_schema(tp, additional_properties=addp, **kw)
                        except Exception as e:   # noqa
                            R.violation(f"serialize / serialization_schema of a discriminated union raised {type(e).__name__}: {e}", info)
                            continue
                        try:
                            std = jsonschema.Draft202012Validator(doc).is_valid(out)
                        except RecursionError:
                            std = "does not terminate"
                        if std is True:
                            continue
                        try:
                            oas = jsonschema.Draft202012Validator(discriminator_aware(doc)).is_valid(out)
                        except Exception as e:   # noqa
                            oas = f"{type(e).__name__}: {e}"
                        if oas is True and R.known_match("ser-discriminator-keyword-semantics"):
                            continue
                        R.violation(f"serialize output {out!r} of a discriminated union is invalid against serialization_schema: {std} "
                                    f"(standard semantics) / {oas} (with the OpenAPI meaning of discriminator)", dict(info, schema=doc, output=out))
                        if len(R.violations) > 5:
                            return
    finally:
        pyrun.drop_module(mod)
        apischema.cache.reset()


# ---------------------------------------------------------------- dataclass constructors (C08)

CTOR_SRC = '''
from dataclasses import dataclass, field, fields, InitVar
from typing import List, Optional, ClassVar
from apischema.metadata import skip

@dataclass
class Plain:
    a: int
    b: str = "b"
    c: List[int] = field(default_factory=list)

@dataclass(frozen=True)
class Frozen:
    a: int
    b: Optional[str] = None

@dataclass
class OwnPost:
    name: str
    tags: List[str] = field(default_factory=list)
    def __post_init__(self):
        self.name = self.name.strip().lower()
        self.tags = sorted(self.tags)

@dataclass
class PostBase:
    name: str
    def __post_init__(self):
        self.name = self.name.strip().lower()
        self.key = "<" + self.name + ">"      # not a field

@dataclass
class PostChild(PostBase):                  # __post_init__ inherited from a dataclass
    size: int = 0

@dataclass
class PostGrandChild(PostChild):
    extra: List[int] = field(default_factory=list)

class UpperMixin:                           # __post_init__ inherited from a plain class
    def __post_init__(self):
        for f in fields(self):
            v = getattr(self, f.name)
            if isinstance(v, str):
                setattr(self, f.name, v.upper())

@dataclass
class Mixed(UpperMixin):
    code: str
    n: int = 1

@dataclass(init=False)
class OwnInit:                              # hand-written __init__ with the signature of the generated one
    a: int
    b: str = "x"
    def __init__(self, a: int, b: str = "x"):
        self.a = a * 2
        self.b = b + "!"

@dataclass
class InitBase:
    a: int
    b: str = "x"

class SubInit(InitBase):                    # undecorated subclass overriding __init__ with the same signature
    def __init__(self, a: int, b: str = "x"):
        super().__init__(a + 1, b)
        self.seen = True

@dataclass
class NoInitField:
    a: int
    total: int = field(default=7, init=False)

@dataclass
class WithInitVar:
    a: int
    scale: InitVar[int] = 1
    def __post_init__(self, scale):
        self.a = self.a * scale

@dataclass
class Slotted:
    __slots__ = ("a", "b")
    a: int
    b: str

@dataclass
class Guarded:
    a: int
    b: str = ""
    def __setattr__(self, k, v):
        object.__setattr__(self, k, v.strip() if isinstance(v, str) else v)

class Counting:
    made: ClassVar[int] = 0

@dataclass
class WithNew:
    a: int = 0
    def __new__(cls, *args, **kwargs):
        obj = super().__new__(cls)
        obj.stamp = "new"
        return obj

class Meta(type):
    def __call__(cls, *args, **kwargs):
        obj = super().__call__(*args, **kwargs)
        obj.via_meta = True
        return obj

@dataclass
class WithMeta(metaclass=Meta):
    a: int = 0

@dataclass
class SkippedIn:                            # fields that deserialization skips still get their default
    x: int
    y: List[int] = field(default_factory=list, metadata=skip(deserialization=True))
    z: int = field(default=3, metadata=skip)
    w: str = "w"

@dataclass
class Nested:
    child: PostChild
    items: List[Mixed] = field(default_factory=list)
    own: Optional[OwnInit] = None
    sub: Optional[SubInit] = None

CASES = [
    (Plain, {"a": 1}), (Plain, {"a": 1, "b": "z", "c": [1, 2]}), (Plain, {"a": "no"}), (Plain, {}),
    (Frozen, {"a": 1, "b": "q"}), (Frozen, {"a": None}),
    (OwnPost, {"name": " Bar ", "tags": ["b", "a"]}), (OwnPost, {"name": 1}),
    (PostBase, {"name": " Q "}), (PostChild, {"name": " Bar ", "size": 3}), (PostChild, {"name": " Bar "}), (PostChild, {"size": "x"}),
    (PostGrandChild, {"name": " G ", "extra": [3]}), (Mixed, {"code": "ab"}), (Mixed, {"code": "ab", "n": 2}), (Mixed, {"n": 2}),
    (OwnInit, {"a": 2}), (OwnInit, {"a": 2, "b": "k"}), (OwnInit, {"b": 1}),
    (SubInit, {"a": 2}), (SubInit, {"a": 2, "b": "k"}), (SubInit, {}),
    (NoInitField, {"a": 1}), (NoInitField, {"a": 1, "total": 3}),
    (WithInitVar, {"a": 2, "scale": 5}), (WithInitVar, {"a": 2}),
    (Slotted, {"a": 1, "b": "s"}), (Slotted, {"a": 1}),
    (Guarded, {"a": 1, "b": "  padded "}), (WithNew, {"a": 4}), (WithNew, {}), (WithMeta, {"a": 4}),
    (SkippedIn, {"x": 1}), (SkippedIn, {"x": 1, "w": "v"}), (SkippedIn, {"x": "no"}), (List[SkippedIn], [{"x": 1, "w": "a"}, {"x": 2}]),
    (Nested, {"child": {"name": " N ", "size": 1}, "items": [{"code": "x"}, {"code": "y", "n": 0}], "own": {"a": 1}, "sub": {"a": 1}}),
    (Nested, {"child": {"name": 3}, "items": [{"n": "bad"}]}),
    (List[PostChild], [{"name": " a "}, {"name": " B ", "size": 2}]), (Optional[OwnInit], {"a": 5}), (Optional[SubInit], None),
]
'''


def snapshot(v, depth=0):
    """structural image of a result: class names, declared fields and any other instance attribute"""
    if depth > 8:
        return "..."
    if isinstance(v, (list, tuple)):
        return [type(v).__name__] + [snapshot(x, depth + 1) for x in v]
    if isinstance(v, dict):
        return {k: snapshot(x, depth + 1) for k, x in v.items()}
    if hasattr(v, "__dataclass_fields__"):
        attrs = {}
        for name in list(getattr(v, "__dict__", {})) + [s for s in getattr(type(v), "__slots__", ())]:
            if name == "_fields_set":
                continue
            try:
                attrs[name] = snapshot(getattr(v, name), depth + 1)
            except AttributeError:
                attrs[name] = "<unset>"
        return (type(v).__name__, sorted(attrs.items(), key=lambda kv: kv[0]))
    return (type(v).__name__, repr(v))


def constructor_probe(R):
    """C08: the result of deserialize / deserialization_method does not depend on
    settings.deserialization.override_dataclass_constructors nor on no_copy, for dataclasses whose construction is observable:
    own and inherited __post_init__, hand-written __init__, init=False fields, InitVar, __slots__, __setattr__, __new__,
    metaclass __call__."""
    pyrun.ensure_repo_on_path()
    import apischema.cache
    from apischema import deserialize, deserialization_method, settings
    apischema.cache.reset()
    mod = pyrun.exec_module(CTOR_SRC)
    prev = settings.deserialization.override_dataclass_constructors
    try:
        for tp, d in mod.CASES:
            obs = {}
            for override in (False, True):
                settings.deserialization.override_dataclass_constructors = override
                for no_copy in (True, False):
                    for via in ("function", "method"):
                        R.count("constructor_probe")
                        data = copy.deepcopy(d)
                        if via == "function":
                            out = outcome(lambda: deserialize(tp, data, no_copy=no_copy))
                        else:
                            out = outcome(lambda: deserialization_method(tp, no_copy=no_copy)(data))
                        obs[(override, no_copy, via)] = (out[0], snapshot(out[1]) if out[0] == "ok" else out[1])
                        if data != d:
                            R.violation(f"deserialize modified its input {d!r} -> {data!r}", dict(source=CTOR_SRC, type=str(tp), data=d))
            base = obs[(False, False, "function")]
            for key, o in obs.items():
                if o != base:
                    R.violation(f"deserializing {d!r} as {getattr(tp, '__name__', tp)} depends on (override_dataclass_constructors, no_copy, "
                                f"function/method) = {key}: {o!r} instead of {base!r}",
                                dict(source=CTOR_SRC, type=str(tp), data=d, options=dict(override=key[0], no_copy=key[1], via=key[2]),
                                     baseline=repr(base), got=repr(o)))
                    break
    finally:
        settings.deserialization.override_dataclass_constructors = prev
        pyrun.drop_module(mod)
        apischema.cache.reset()


# ---------------------------------------------------------------- constraints given at several levels (C01 / C06)

def stacked_constraints_probe(R, aspects):
    """aspects: subset of {'accept' (C01), 'schema' (C06)}.
    The same constraint given at two or three levels (NewType schema, nested Annotated, field metadata, per-call schema=) means
    their conjunction: deserialize accepts d under the stack iff it accepts d under every level alone; the generated schema
    validates exactly the accepted data."""
    pyrun.ensure_repo_on_path()
    import apischema.cache
    import itertools
    from dataclasses import dataclass, field, make_dataclass
    from typing import Annotated, Any, Dict, List, NewType
    from apischema import deserialize, schema, ValidationError
    from apischema.json_schema import deserialization_schema
    import jsonschema
    apischema.cache.reset()
    NUM = [-1, 0, 1, 2, 3, 4, 5, 6, 7, 9, 10, 11, 12, 18, 24, 36]
    FNUM = NUM + [0.5, 2.5, 4.5, 4.75, 9.99, 10.5]
    STR = ["", "a", "ab", "abc", "abcd", "abcde", "abcdef"]
    LST = [[], [1], [1, 1], [1, 2], [1, 2, 3], [1, 2, 2, 3], [1, 2, 3, 4], [1, 2, 3, 4, 5]]
    DCT = [{}, {"a": 1}, {"a": 1, "b": 2}, {"a": 1, "b": 2, "c": 3}, {"a": 1, "b": 2, "c": 3, "d": 4}]
    families = [
        (int, NUM, [dict(min=2), dict(min=5), dict(max=4), dict(max=10), dict(exc_min=2), dict(exc_min=5), dict(exc_max=5),
                    dict(exc_max=10), dict(mult_of=2), dict(mult_of=3), dict(mult_of=4), dict(min=1, max=9), dict(exc_min=0, mult_of=6)]),
        (float, FNUM, [dict(min=2.5), dict(min=4.75), dict(max=4.5), dict(max=10), dict(exc_min=0.5), dict(exc_min=4.5),
                       dict(exc_max=4.5), dict(exc_max=10), dict(min=0, exc_max=9.99)]),
        (str, STR, [dict(min_len=1), dict(min_len=3), dict(max_len=2), dict(max_len=4), dict(min_len=2, max_len=5), dict(pattern="^a")]),
        (List[int], LST, [dict(min_items=1), dict(min_items=3), dict(max_items=2), dict(max_items=4), dict(unique=True),
                          dict(unique=False), dict(min_items=2, unique=True)]),
        (Dict[str, int], DCT, [dict(min_props=1), dict(min_props=3), dict(max_props=1), dict(max_props=3), dict(min_props=2, max_props=3)]),
    ]
    counter = [0]

    def accepts(tp, d, **kw):
        try:
            deserialize(tp, copy.deepcopy(d), **kw)
            return True
        except ValidationError:
            return False

    def stacks(base, levels):
        """the ways of giving the levels (innermost first): (name, type, wrap datum, unwrap kwargs)"""
        def annotated(ls):
            t = base
            for c in ls:
                t = Annotated[t, schema(**c)]
            return t
        yield "nested Annotated", annotated(levels), (lambda d: d), {}
        counter[0] += 1
        nt = NewType(f"N{counter[0]}", base)
        schema(**levels[0])(nt)
        t = nt
        for c in levels[1:]:
            t = Annotated[t, schema(**c)]
        yield "NewType schema + Annotated", t, (lambda d: d), {}
        yield "per-call schema= over Annotated", annotated(levels[:-1]), (lambda d: d), dict(schema=schema(**levels[-1]))
        counter[0] += 1
        cls = make_dataclass(f"F{counter[0]}", [("x", annotated(levels[:-1]), field(metadata=schema(**levels[-1])))])
        yield "field metadata over Annotated", cls, (lambda d: {"x": d}), {}

    try:
        for base, data, cons in families:
            combos = [list(p) for p in itertools.permutations(cons, 2)]
            combos += [list(p) for p in itertools.islice(itertools.permutations(cons, 3), 0, None, 7)]
            for levels in combos:
                merged_keys = [k for c in levels for k in c]
                if merged_keys.count("pattern") > 1:
                    continue        # patterns cannot be merged (documented TypeError)
                alone = [[accepts(Annotated[base, schema(**c)], d) for d in data] for c in levels]
                for name, tp, wrap, kw in stacks(base, levels):
                    R.count("stacked_constraints")
                    info = dict(levels=[repr(c) for c in levels], base=str(base), stacking=name)
                    try:
                        got = [accepts(tp, wrap(d), **kw) for d in data]
                    except Exception as e:   # noqa
                        if isinstance(e, TypeError) and "multipleOf" in str(e):
                            continue
                        R.violation(f"{type(e).__name__} with constraints {levels} given as {name}: {e}", info)
                        continue
                    for i, d in enumerate(data):
                        want = all(a[i] for a in alone)
                        if "accept" in aspects and got[i] != want:
                            R.violation(f"constraints {levels} given as {name} on {base}: {d!r} is {'accepted' if got[i] else 'rejected'} "
                                        f"but is {'accepted' if want else 'rejected'} by the conjunction of the levels taken alone",
                                        dict(info, data=d))
                            break
                    if "schema" in aspects:
                        try:
                            doc = deserialization_schema(tp, **kw)
                        except Exception as e:   # noqa
                            R.violation(f"deserialization_schema raised {type(e).__name__} with constraints {levels} given as {name}: {e}", info)
                            continue
                        val = jsonschema.Draft202012Validator(doc)
                        for i, d in enumerate(data):
                            if isinstance(d, float) and d == int(d):
                                continue
                            if val.is_valid(wrap(d)) != got[i]:
                                R.violation(f"constraints {levels} given as {name} on {base}: deserialize {'accepts' if got[i] else 'rejects'} "
                                            f"{d!r} but the schema says {val.is_valid(wrap(d))}", dict(info, data=d, schema=doc))
                                break
                    if len(R.violations) > 5:
                        return
    finally:
        apischema.cache.reset()


def stdlib_round_trip_probe(R, aspects=("round_trip", "json", "no_copy")):
    """standard-library types with default conversions (UUID, date / datetime / time, Decimal, bytes, Path, ip addresses,
    Pattern, deque), alone and inside containers - as items, mapping values, mapping *keys*, Optional, tuple members,
    dataclass fields - under no_copy on / off and pass_through collections: the output is JSON (C04), does not depend on
    no_copy (C08), and deserializes back to an equal value of the same classes (C05)"""
    pyrun.ensure_repo_on_path()
    import collections
    import dataclasses
    import datetime
    import decimal
    import ipaddress
    import json
    import pathlib
    import re
    import uuid
    from typing import Collection, Deque, Dict, FrozenSet, List, Mapping, Optional, Pattern, Sequence, Tuple
    from apischema import PassThroughOptions, deserialize, serialize
    vals = [(uuid.UUID, uuid.UUID(int=5), uuid.UUID(int=9)), (datetime.date, datetime.date(2020, 1, 2), datetime.date(1999, 12, 31)),
            (datetime.datetime, datetime.datetime(2020, 1, 2, 3, 4, 5), datetime.datetime(2000, 1, 1)),
            (datetime.time, datetime.time(1, 2, 3), datetime.time(23, 59)),
            (decimal.Decimal, decimal.Decimal("1.5"), decimal.Decimal("-2")), (bytes, b"ab", b""),
            (pathlib.Path, pathlib.Path("/a/b"), pathlib.Path("c")),
            (ipaddress.IPv4Address, ipaddress.IPv4Address("1.2.3.4"), ipaddress.IPv4Address("0.0.0.0")),
            (ipaddress.IPv6Address, ipaddress.IPv6Address("::1"), ipaddress.IPv6Address("::2")),
            (ipaddress.IPv4Network, ipaddress.IPv4Network("10.0.0.0/8"), ipaddress.IPv4Network("192.168.0.0/16")),
            (Pattern, re.compile("a+"), re.compile("b"))]

    def same_classes(a, b):
        if type(a) is not type(b):
            return False
        if isinstance(a, (list, tuple, collections.deque)):
            return len(a) == len(b) and all(same_classes(x, y) for x, y in zip(a, b))
        if isinstance(a, dict):
            return len(a) == len(b) and all(same_classes(x, y) for x, y in zip(sorted(a, key=repr), sorted(b, key=repr))) \
                and all(same_classes(a[k], b[k]) for k in a)
        if dataclasses.is_dataclass(a):
            return all(same_classes(getattr(a, f.name), getattr(b, f.name)) for f in dataclasses.fields(a))
        return True

    for T, v1, v2 in vals:
        H = dataclasses.make_dataclass("H", [("x", T), ("ys", List[T], dataclasses.field(default_factory=list)),
                                             ("by", Dict[T, int], dataclasses.field(default_factory=dict))])
        wrapped = [(T, v1), (List[T], [v1, v2]), (Sequence[T], [v1]), (Collection[T], [v2, v1]), (Tuple[T, ...], (v1, v2)),
                   (Dict[str, T], {"k": v1, "l": v2}), (Optional[T], v1), (Optional[T], None), (Tuple[T, int], (v1, 1)),
                   (Dict[T, int], {v1: 1, v2: 2}), (Dict[T, Optional[str]], {v1: None, v2: "s"}), (Mapping[T, bool], {v1: True}),
                   (Dict[T, List[T]], {v1: [v2]}), (List[Dict[T, int]], [{v1: 1}, {}]), (FrozenSet[T], frozenset({v1})),
                   (Deque[T], collections.deque([v1, v2])), (H, H(v1, [v2], {v2: 3})), (List[H], [H(v2)]),
                   (Dict[str, Dict[T, str]], {"a": {v1: "x"}})]
        if T is decimal.Decimal:
            # serialized as a number: as a mapping key it is not a string, json.dumps renders it and the text is not read back
            # (like Dict[int, X]: JSON object keys are strings)
            wrapped = [(W, wv) for W, wv in wrapped if not (isinstance(wv, dict) and any(isinstance(k, decimal.Decimal) for k in wv))
                       and not (isinstance(wv, list) and any(isinstance(x, dict) and any(isinstance(k, decimal.Decimal) for k in x) for x in wv))
                       and not (isinstance(wv, dict) and any(isinstance(x, dict) and any(isinstance(k, decimal.Decimal) for k in x) for x in wv.values()))
                       and not dataclasses.is_dataclass(wv) and not (isinstance(wv, list) and any(dataclasses.is_dataclass(x) for x in wv))]
        for W, wv in wrapped:
            label = str(W) if not isinstance(W, type) else W.__name__
            outs = {}
            for name, kw in (("no_copy", dict(no_copy=True)), ("copy", dict(no_copy=False)),
                             ("pass_through_collections", dict(no_copy=True, pass_through=PassThroughOptions(collections=True)))):
                R.count("stdlib_round_trip_probe")
                try:
                    out = serialize(W, wv, **kw)
                except Exception as e:
                    R.violation(f"serialize({label}, ...) raised {type(e).__name__}: {str(e)[:150]}", dict(type=label, value=repr(wv), options=name))
                    break
                if name != "pass_through_collections":
                    outs[name] = out
                try:
                    j = json.loads(json.dumps(out))
                except (TypeError, ValueError) as e:
                    if name == "pass_through_collections":
                        continue      # the named types are left untouched on purpose
                    if "json" in aspects or "round_trip" in aspects:
                        R.violation(f"serialize({label}, {wv!r}) is not JSON data ({name}): {out!r} ({e})",
                                    dict(type=label, value=repr(wv), options=name, output=repr(out)))
                    break
                if "round_trip" in aspects:
                    try:
                        back = deserialize(W, j)
                    except Exception as e:
                        R.violation(f"deserialize rejects the output of serialize for {label}: {type(e).__name__}: {str(e)[:150]}",
                                    dict(type=label, value=repr(wv), options=name, output=repr(out)))
                        break
                    if not (back == wv and same_classes(back, wv)):
                        R.violation(f"deserialize({label}, serialize({label}, v)) = {back!r} differs from v = {wv!r}",
                                    dict(type=label, value=repr(wv), options=name, output=repr(out)))
                        break
            else:
                if "no_copy" in aspects and outs.get("no_copy") != outs.get("copy"):
                    R.violation(f"serialize({label}, {wv!r}) depends on no_copy: {outs.get('no_copy')!r} vs {outs.get('copy')!r}",
                                dict(type=label, value=repr(wv)))
                if "no_copy" in aspects and "copy" in outs:
                    # deserialization of the serialized data must not depend on no_copy either (converted keys / items)
                    try:
                        j2 = json.loads(json.dumps(outs["copy"]))
                        b1, b2 = deserialize(W, copy.deepcopy(j2), no_copy=True), deserialize(W, copy.deepcopy(j2), no_copy=False)
                        if not (b1 == b2 and same_classes(b1, b2)):
                            R.violation(f"deserialize({label}, {j2!r}) depends on no_copy: {b1!r} vs {b2!r}", dict(type=label, data=repr(j2)))
                    except (TypeError, ValueError):
                        pass          # not JSON text (Decimal keys ...): covered by the round-trip aspect
                    except Exception as e:   # noqa
                        R.violation(f"deserialize({label}, ...) raised {type(e).__name__}: {str(e)[:150]}", dict(type=label, value=repr(wv)))
    if "round_trip" in aspects:
        # Decimal goes through a JSON number (a double): values that are no dyadic rational come back different
        for txt in ("0.1", "3.14", "-2.675", "1E-7", "123456789.123456789123"):
            v = decimal.Decimal(txt)
            R.count("stdlib_round_trip_probe:decimal")
            try:
                out = serialize(decimal.Decimal, v)
                back = deserialize(decimal.Decimal, json.loads(json.dumps(out)))
            except Exception as e:
                R.violation(f"Decimal({txt!r}) does not go through serialize / deserialize: {type(e).__name__}: {e}", dict(value=txt))
                continue
            if back != v and not (isinstance(out, float) and R.known_match("decimal-through-float")):
                R.violation(f"deserialize(Decimal, serialize(Decimal, Decimal({txt!r}))) = {back!r}", dict(value=txt, output=repr(out)))


def stdlib_invalid_probe(R):
    """standard-library converted types on malformed data: only ValidationError may come out (C03)"""
    import datetime
    import decimal
    import ipaddress
    import pathlib
    import re
    import uuid
    from typing import Dict, List, Optional, Pattern
    pyrun.ensure_repo_on_path()
    from apischema import deserialize, ValidationError
    types = [uuid.UUID, datetime.date, datetime.datetime, datetime.time, decimal.Decimal, bytes, pathlib.Path,
             ipaddress.IPv4Address, ipaddress.IPv6Address, ipaddress.IPv4Network, ipaddress.IPv6Interface, Pattern]
    bad = ["", "a", "abc", "\u00e9", "YQ= =", "1.x", "2020-13-45", "25:61:00", "2020-01-01T99", "(", "[a", "999.1.1.1", "1.2.3.4/99",
           "::g", "0" * 40, "nan", " ", "\x00", 1, -1, 1.5, True, None, [], {}, [1], {"a": 1}, float("inf"), float("nan"), 10 ** 400]
    for T in types:
        for wrap, mk in ((lambda t: t, lambda d: d), (lambda t: List[t], lambda d: [d]), (lambda t: Dict[str, t], lambda d: {"k": d}),
                         (lambda t: Optional[t], lambda d: d)):
            for d in bad:
                for kw in ({}, {"coerce": True}):
                    R.count("stdlib_invalid_probe")
                    try:
                        deserialize(wrap(T), mk(d), **kw)
                    except ValidationError:
                        pass
                    except RecursionError:
                        raise
                    except Exception as e:   # noqa
                        R.violation(f"deserialize({wrap(T)}, {mk(d)!r}{', coerce=True' if kw else ''}) raised {type(e).__name__}: "
                                    f"{str(e)[:120]} instead of ValidationError", dict(type=str(wrap(T)), data=repr(mk(d)), options=kw))
                        break
                else:
                    continue
                break
    # a class with several deserializers, the failing one wrapped with catch_value_error: its ValueError is a rejection too
    import apischema.cache
    from typing import Tuple
    from apischema import deserializer
    from apischema.conversions import Conversion, catch_value_error, reset_deserializers

    class Version:
        def __init__(self, parts):
            self.parts = tuple(parts)

    def parse_version(s: str) -> Version:
        return Version(int(p) for p in s.split("."))          # ValueError on "1.x"

    def version_from_parts(parts: List[int]) -> Version:
        return Version(parts)
    try:
        deserializer(Conversion(catch_value_error(parse_version), source=str, target=Version))
        deserializer(Conversion(version_from_parts, source=List[int], target=Version))
        for wrap, mk in ((lambda t: t, lambda d: d), (lambda t: List[t], lambda d: [d]), (lambda t: Optional[t], lambda d: d)):
            for d in ("1.x", "", "a", [1, "x"], 3, None, {}):
                R.count("stdlib_invalid_probe:two_deserializers")
                try:
                    deserialize(wrap(Version), mk(d))
                except ValidationError:
                    pass
                except Exception as e:   # noqa
                    R.violation(f"deserialize({wrap(Version)}, {mk(d)!r}) raised {type(e).__name__}: {str(e)[:120]} instead of "
                                "ValidationError (class with two deserializers, the first wrapped with catch_value_error)",
                                dict(type=str(wrap(Version)), data=repr(mk(d))))
                    break
        if deserialize(Version, "1.2").parts != (1, 2) or deserialize(Version, [3]).parts != (3,):
            R.violation("a class with two deserializers does not read its two forms", {})
    finally:
        reset_deserializers(Version)
        apischema.cache.reset()
    # primitives under coercion with numbers too large to be converted
    from typing import Literal
    for T in (str, int, float, bool, Literal["a"], Optional[str], List[str]):
        for d in (10 ** 5000, -10 ** 5000, "9" * 5000, 1e308 * 10, [10 ** 5000]):
            R.count("stdlib_invalid_probe:huge")
            try:
                deserialize(T, d, coerce=True)
            except ValidationError:
                pass
            except Exception as e:   # noqa
                R.violation(f"deserialize({T}, <a {type(d).__name__} of about 5000 digits>, coerce=True) raised "
                            f"{type(e).__name__}: {str(e)[:100]} instead of ValidationError",
                            dict(type=str(T), data=f"{type(d).__name__} with ~5000 digits"))
    # required flattened / pattern / additional properties fields with invalid content under fall_back_on_default:
    # there is no default to fall back on, the error has to come out (as a ValidationError)
    mod = pyrun.exec_module(AGG_REQUIRED_SRC)
    try:
        for cls, d in ((mod.Flat, {"x": "a"}), (mod.Flat, {}), (mod.Pat, {"pa": "a"}), (mod.Add, {"za": "a"}),
                       (mod.Flat, {"x": 1}), (mod.Pat, {"pa": 1}), (mod.Add, {"za": 1}), (mod.FlatDefault, {"x": "a"})):
            for kw in ({}, {"fall_back_on_default": True}):
                R.count("stdlib_invalid_probe:aggregate_required")
                try:
                    deserialize(cls, dict(d), **kw)
                except ValidationError:
                    pass
                except Exception as e:   # noqa
                    R.violation(f"deserialize({cls.__name__}, {d!r}{', fall_back_on_default=True' if kw else ''}) raised "
                                f"{type(e).__name__}: {str(e)[:120]} instead of ValidationError",
                                dict(source=AGG_REQUIRED_SRC, type=cls.__name__, data=d, options=kw))
    finally:
        pyrun.drop_module(mod)
        apischema.cache.reset()


AGG_REQUIRED_SRC = '''
import re
from dataclasses import dataclass, field
from typing import Dict
from apischema.metadata import flatten, properties

@dataclass
class Inner:
    x: int

@dataclass
class Flat:
    inner: Inner = field(metadata=flatten)

@dataclass
class FlatDefault:
    inner: Inner = field(default_factory=lambda: Inner(7), metadata=flatten)

@dataclass
class Pat:
    p: Dict[str, int] = field(metadata=properties(pattern=re.compile("^p")))

@dataclass
class Add:
    r: Dict[str, int] = field(metadata=properties)
'''


def aggregate_probe(R, aspects=("dispatch", "schema"), n_classes=40, data_per_class=10):
    """classes with flattened, pattern-properties and additional-properties fields: where each key of the datum goes
    (inner object, pattern dict, additional dict, unexpected property) against the model Small/Aggregate.v (`dispatch`, proved
    equal to the documented partition), and acceptance against deserialization_schema (jsonschema, standard semantics)"""
    import re
    from harness import core
    from harness.core import coq_str, coq_list, coq_bool
    pyrun.ensure_repo_on_path()
    import apischema.cache
    import jsonschema
    from apischema import deserialize, ValidationError
    from apischema.json_schema import deserialization_schema
    rng = R.rng
    items, meta = [], []
    m_items, m_meta = [], []
    PATS = ["x_", "x_a", "y"]
    for ci in range(n_classes):
        nn = rng.randint(1, 2)
        nflat = rng.choice([0, 1, 1, 2])
        npat = rng.choice([0, 0, 1, 2])
        has_add = rng.random() < 0.4
        if nflat + npat + has_add == 0:
            nflat = 1
        pre = rng.choice(["", "", "q_"])
        inner_pool = ["f0", "f1", "f2", "x_f", "y"]
        rng.shuffle(inner_pool)
        inner = [sorted(set(rng.sample(inner_pool, rng.randint(1, 2)))) for _ in range(nflat)]
        if nflat == 2 and set(inner[0]) & set(inner[1]):
            inner[1] = [x for x in inner[1] if x not in inner[0]] or ["f9"]
        pats = rng.sample(PATS, npat)
        L = ["import re", "from dataclasses import dataclass, field", "from typing import Dict",
             "from apischema.metadata import flatten, properties", ""]
        for i, names in enumerate(inner):
            L += ["@dataclass", f"class G{i}:"] + [f"    {n}: int = -1" for n in names] + [""]
        L += ["@dataclass", "class C:"] + [f"    n{k}: int = 0" for k in range(nn)]
        for i in range(nflat):
            L.append(f"    g{i}: G{i} = field(default_factory=G{i}, metadata=flatten)")
        for j, p in enumerate(pats):
            L.append(f"    p{j}: Dict[str, int] = field(default_factory=dict, metadata=properties(pattern=re.compile({('^' + p)!r})))")
        if has_add:
            L.append("    rest: Dict[str, int] = field(default_factory=dict, metadata=properties)")
        src = "\n".join(L) + "\n"
        al = (lambda s, pre=pre: pre + s)
        apischema.cache.reset()
        try:
            mod = pyrun.exec_module(src)
        except Exception as e:   # noqa
            R.count("aggregate_class_rejected:" + type(e).__name__)
            continue
        try:
            known = [al(f"n{k}") for k in range(nn)]
            flats = [[al(n) for n in names] for names in inner]
            own = [f"g{i}" for i in range(nflat)] + [f"p{j}" for j in range(npat)] + (["rest"] if has_add else [])
            universe = known + [a for fl in flats for a in fl] + own + [al(o) for o in own] \
                + ["x_", "x_a", "x_ab", "x_b", "x_f", "y", "yy", "zz", "n0", "f0"]
            universe = sorted(set(universe))
            for _ in range(data_per_class):
                keys = rng.sample(universe, rng.randint(0, min(6, len(universe))))
                data = {k: 1 + i for i, k in enumerate(keys)}
                ap = rng.random() < 0.3
                info = dict(source=src, aliaser_prefix=pre, data=data, additional_properties=ap)
                R.count("aggregate_probe")
                try:
                    v = deserialize(mod.C, dict(data), aliaser=al, additional_properties=ap)
                    ok, errs = True, None
                except ValidationError as e:
                    ok, errs = False, e.errors
                except Exception as e:   # noqa
                    R.violation(f"deserialize of a class with aggregate fields raised {type(e).__name__}: {e}", info)
                    continue
                if ok:
                    ots = [[al(n) for n in names if getattr(getattr(v, f"g{i}"), n) != -1] for i, names in enumerate(inner)]
                    oms = [sorted(getattr(v, f"p{j}")) for j in range(npat)]
                    orest = sorted(v.rest) if has_add else []
                    mode = 0 if has_add else (1 if ap else 2)
                    for i, names in enumerate(inner):
                        g = getattr(v, f"g{i}")
                        for n in names:
                            if getattr(g, n) != -1 and getattr(g, n) != data.get(al(n)):
                                R.violation(f"flattened field g{i}.{n} holds {getattr(g, n)!r}, the datum has {data.get(al(n))!r}", info)
                else:
                    bad = [e for e in errs if e["err"] != "unexpected property" or len(e["loc"]) != 1]
                    if bad:
                        R.violation(f"unexpected errors {bad} for a datum whose values are all valid", info)
                        continue
                    ots, oms, orest, mode = [[] for _ in inner], [[] for _ in pats], sorted(e["loc"][0] for e in errs), 3
                    if has_add or ap:
                        R.violation("unexpected properties are reported although the class keeps / tolerates additional properties: "
                                    f"{orest}", info)
                        continue
                if "round_trip" in aspects and ok:
                    from apischema import serialize
                    try:
                        out = serialize(mod.C, v, aliaser=al)
                        back = deserialize(mod.C, out, aliaser=al, additional_properties=ap)
                        if back != v:
                            R.violation(f"a value with aggregate fields does not round-trip: {v!r} -> {out!r} -> {back!r}", info)
                        # what each source emits, for the model of the merge (Small/AggregateRT.v, `merged`)
                        e_kids = [sorted(serialize(getattr(mod, f"G{i}"), getattr(v, f"g{i}"), aliaser=al)) for i in range(nflat)]
                        e_pk = [sorted(getattr(v, f"p{j}")) for j in range(npat)]
                        e_extra = sorted(v.rest) if has_add else []
                        agg_ = (f"(mkAgg {coq_list(map(coq_str, known))} {coq_list(coq_list(map(coq_str, fl)) for fl in flats)} "
                                f"{coq_list(map(coq_str, pats))} {coq_bool(has_add)})")
                        em_ = (f"(mkEm {coq_list(map(coq_str, known))} {coq_list(coq_list(map(coq_str, x)) for x in e_kids)} "
                               f"{coq_list(coq_list(map(coq_str, x)) for x in e_pk)} {coq_list(map(coq_str, e_extra))})")
                        m_items.append(f"({agg_}, {em_}, {coq_list(map(coq_str, sorted(out)))})")
                        m_meta.append(dict(info, value=repr(v), output=out))
                    except Exception as e:   # noqa
                        R.violation(f"serialize / deserialize of a value with aggregate fields raised {type(e).__name__}: {e}", info)
                if "ser_schema" in aspects and ok:
                    from apischema import serialize
                    from apischema.json_schema import serialization_schema
                    try:
                        out = serialize(mod.C, v, aliaser=al, additional_properties=ap)
                        sdoc = serialization_schema(mod.C, aliaser=al, additional_properties=ap)
                        svalid = jsonschema.Draft202012Validator(sdoc).is_valid(out)
                    except Exception as e:   # noqa
                        R.violation(f"serialize / serialization_schema of a class with aggregate fields raised {type(e).__name__}: {e}", info)
                        continue
                    if not svalid:
                        attributed = False
                        if nflat and not ap:          # KF-C07-flattened-closed-branches: the members of the allOf left open
                            opened = copy.deepcopy(sdoc)
                            for k_, member in enumerate(opened.get("allOf", [])):
                                if isinstance(member, dict) and "$ref" in member:
                                    member = copy.deepcopy(_resolve(opened, member["$ref"]))
                                    opened["allOf"][k_] = member
                                if isinstance(member, dict) and member.get("additionalProperties") is False:
                                    del member["additionalProperties"]
                            attributed = jsonschema.Draft202012Validator(opened).is_valid(out) \
                                and R.known_match("ser-flattened-closed-branches")
                        if not attributed:
                            R.violation(f"serialize output {out!r} is invalid against serialization_schema (class with flattened / "
                                        "pattern / additional properties fields)", dict(info, schema=sdoc, output=out))
                if "dispatch" in aspects:
                    agg = (f"(mkAgg {coq_list(map(coq_str, known))} {coq_list(coq_list(map(coq_str, fl)) for fl in flats)} "
                           f"{coq_list(map(coq_str, pats))} {coq_bool(has_add)})")
                    items.append(f"({agg}, {coq_list(map(coq_str, keys))}, {coq_list(coq_list(map(coq_str, x)) for x in ots)}, "
                                 f"{coq_list(coq_list(map(coq_str, x)) for x in oms)}, {coq_list(map(coq_str, orest))}, {mode}%nat)")
                    meta.append(dict(info, outcome=("accepted: " + repr(v)) if ok else errs))
                if "schema" in aspects:
                    try:
                        doc = deserialization_schema(mod.C, aliaser=al, additional_properties=ap)
                        valid = jsonschema.Draft202012Validator(doc).is_valid(data)
                    except Exception as e:   # noqa
                        R.violation(f"deserialization_schema of a class with aggregate fields: {type(e).__name__}: {e}", info)
                        continue
                    if valid != ok:
                        # KF-C06-flattened-closed-branches: each member of the allOf carries additionalProperties: false and
                        # rejects the properties of the others; read with the members left open (the top-level
                        # unevaluatedProperties: false closes the whole), the schema must agree
                        if ok and not valid and nflat and not ap:
                            opened = copy.deepcopy(doc)
                            for k_, member in enumerate(opened.get("allOf", [])):
                                if isinstance(member, dict) and "$ref" in member:
                                    member = copy.deepcopy(_resolve(opened, member["$ref"]))
                                    opened["allOf"][k_] = member
                                if isinstance(member, dict) and member.get("additionalProperties") is False:
                                    del member["additionalProperties"]
                            if jsonschema.Draft202012Validator(opened).is_valid(data) == ok \
                                    and R.known_match("flattened-closed-branches"):
                                continue
                        R.violation(f"deserialize {'accepts' if ok else 'rejects'} {data!r} but its schema says {valid} "
                                    "(class with flattened / pattern / additional properties fields)", dict(info, schema=doc))
        finally:
            pyrun.drop_module(mod)
    apischema.cache.reset()
    if "dispatch" in aspects and items:
        T = "agg * list string * list (list string) * list (list string) * list string * nat"
        bad, errs = core.run_coq_shards("aggregate", "From Coq Require Import List String Bool.\nFrom AV Require Import Small.Aggregate.\n"
                                        "Import ListNotations.\nOpen Scope string_scope.\n", items, "agg_case_ok", item_type=T, shard=300)
        for k, e in errs:
            R.broken.append(f"coq evaluation failed (aggregate shard {k}): {e[-300:]}")
        for i in bad[:4]:
            R.violation("the keys of the datum are not dispatched as documented (model Small/Aggregate.v: regular properties, flattened "
                        "aliases, first matching pattern, the rest additional / unexpected)", meta[i])
        R.hist["aggregate_cases"] = len(items)
    if m_items:
        T = "agg * emitted * list string"
        hdr = ("From Coq Require Import List String Bool.\nFrom AV Require Import Small.Aggregate Small.AggregateRT.\n"
               "Import ListNotations.\nOpen Scope string_scope.\n")
        bad, errs = core.run_coq_shards("aggregate_merge", hdr, m_items, "merge_case_ok", item_type=T, shard=300)
        for k, e in errs:
            R.broken.append(f"coq evaluation failed (aggregate_merge shard {k}): {e[-300:]}")
        for i in bad[:4]:
            R.violation("the keys of the serialized object are not the union of what its sources emit (model Small/AggregateRT.v: "
                        "regular properties, flattened objects, pattern / additional dicts)", m_meta[i])
        nohyp, errs = core.run_coq_shards("aggregate_merge_hyps", hdr, m_items, "merge_case_hyps", item_type=T, shard=300)
        for k, e in errs:
            R.broken.append(f"coq evaluation failed (aggregate_merge_hyps shard {k}): {e[-300:]}")
        R.hist["aggregate_merge_cases"] = len(m_items)
        R.hist["C05_aggregate_hyps"] = len(m_items) - len(nohyp)


EDGE_SRC = '''
import re
from dataclasses import dataclass, field
from typing import Annotated, Dict, Generic, List, NewType, Optional, TypeVar
from apischema import schema
from apischema.metadata import conversion, properties

@dataclass
class TwoPatterns:                     # overlapping patterns with different value types
    a: Dict[str, int] = field(default_factory=dict, metadata=properties(pattern=re.compile("^a")))
    b: Dict[str, str] = field(default_factory=dict, metadata=properties(pattern=re.compile("^ab")))

@dataclass
class NameInPattern:                   # a regular property whose name matches a pattern field
    a1: str = ""
    rest: Dict[str, int] = field(default_factory=dict, metadata=properties(pattern=re.compile("^a")))

class Foo:
    def __init__(self, v):
        self.v = v

def from_int(i: int) -> Foo:
    return Foo(i)

@dataclass
class ConvertedField:                  # a field-level conversion with a field-level schema
    x: Foo = field(metadata=conversion(deserialization=from_int) | schema(min=0))

Key = NewType("Key", str)
schema(pattern="^k")(Key)

@dataclass
class KeyedRest:                       # additional properties whose key type is constrained
    n: int = 0
    rest: Dict[Key, int] = field(default_factory=dict, metadata=properties)

class Code(str):                       # subclasses of primitive types carrying constraints
    pass
schema(min_len=2, pattern="^c")(Code)

class Port(int):
    pass
schema(min=1, max=10)(Port)

@dataclass
class Endpoint:
    code: Code
    port: Port = Port(1)
    short: Annotated[Code, schema(max_len=3)] = Code("cc")

T = TypeVar("T")

@schema(min_props=1, max_props=2)
@dataclass
class Patch(Generic[T]):               # class-level object constraints on a generic class, used specialised
    a: Optional[T] = None
    b: Optional[T] = None
    c: Optional[int] = None

@dataclass
class Patches:
    one: Patch[str]
    many: List[Patch[int]] = field(default_factory=list)
'''


def schema_edge_probe(R):
    """directed instances of three recorded disagreements between deserialize and deserialization_schema (C06), each with
    controls on which the two must agree"""
    pyrun.ensure_repo_on_path()
    import apischema.cache
    import jsonschema
    from apischema import deserialize, ValidationError
    from apischema.json_schema import deserialization_schema
    apischema.cache.reset()
    from typing import Dict, List
    mod = pyrun.exec_module(EDGE_SRC)
    cases = [
        (mod.TwoPatterns, {"ab": 1}, "overlapping-pattern-properties"), (mod.TwoPatterns, {"ax": 1}, None),
        (mod.TwoPatterns, {"ax": "s"}, None), (mod.TwoPatterns, {"ab": []}, None),
        (mod.NameInPattern, {"a1": "x"}, "overlapping-pattern-properties"), (mod.NameInPattern, {"a2": 1}, None),
        (mod.NameInPattern, {"a2": "x"}, None), (mod.NameInPattern, {"a1": 3}, None),
        (mod.ConvertedField, {"x": -1}, "field-conversion-constraints"), (mod.ConvertedField, {"x": 1}, None),
        (mod.ConvertedField, {"x": "s"}, None), (mod.ConvertedField, {}, None),
        (mod.KeyedRest, {"n": 1, "zz": 2}, "additional-properties-key-constraints"), (mod.KeyedRest, {"n": 1, "kz": 2}, None),
        (mod.KeyedRest, {"kz": "s"}, None), (mod.KeyedRest, {"n": "s"}, None),
        (mod.Code, "c", None), (mod.Code, "cx", None), (mod.Code, "xx", None), (mod.Code, 3, None), (mod.Port, 0, None),
        (mod.Port, 5, None), (mod.Port, 11, None), (mod.Port, "5", None), (mod.Endpoint, {"code": "c"}, None),
        (mod.Endpoint, {"code": "cd", "port": 11}, None), (mod.Endpoint, {"code": "cd", "port": 2, "short": "cdef"}, None),
        (mod.Endpoint, {"code": "cd", "port": 2, "short": "cde"}, None), (List[mod.Code], ["cd", "c"], None),
        (Dict[str, mod.Port], {"k": 0}, None), (Dict[mod.Code, int], {"c": 1}, None), (Dict[mod.Code, int], {"cd": 1}, None),
        (mod.Patch[str], {}, None), (mod.Patch[str], {"a": "x"}, None), (mod.Patch[str], {"a": "x", "b": "y", "c": 1}, None),
        (mod.Patch[str], {"a": 1}, None), (mod.Patch, {}, None), (mod.Patch, {"a": 1, "b": 2, "c": 3}, None),
        (mod.Patches, {"one": {}}, None), (mod.Patches, {"one": {"a": "x"}, "many": [{"c": 1}, {}]}, None),
        (mod.Patches, {"one": {"a": "x"}, "many": [{"a": 1, "b": 2}]}, None),
    ]
    try:
        for tp, d, tag in cases:
            R.count("schema_edge_probe")
            tp_name = getattr(tp, "__name__", None) or str(tp)
            info = dict(source=EDGE_SRC, type=tp_name, data=d)
            try:
                deserialize(tp, copy.deepcopy(d))
                acc = True
            except ValidationError:
                acc = False
            try:
                doc = deserialization_schema(tp)
                valid = jsonschema.Draft202012Validator(doc).is_valid(d)
            except Exception as e:   # noqa
                R.violation(f"deserialization_schema({tp_name}): {type(e).__name__}: {e}", info)
                continue
            if acc != valid and not (tag and R.known_match(tag)):
                R.violation(f"deserialize {'accepts' if acc else 'rejects'} {d!r} for {tp_name} but its schema says {valid}",
                            dict(info, schema=doc))
    finally:
        pyrun.drop_module(mod)
        apischema.cache.reset()
