"""Executes a configuration / observation history against apischema (run with PYTHONPATH=<repo>), prints JSON.

usage: c09_driver.py <history.json> [reset_before_obs]
A history is a list of events; an event is ["op", name, args...] or ["obs", name, args...]."""
import json
import sys
from dataclasses import dataclass, field
from typing import Dict, List, NewType, Optional, Union

import apischema
from apischema import (ValidationError, alias, deserialize, deserializer, order, schema, serialize, serialized, serializer,
                       settings, type_name, validator, dependent_required)
from apischema.conversions import reset_deserializers, reset_serializer
from apischema.json_schema import deserialization_schema, serialization_schema
from apischema.objects import ObjectField, object_fields, set_object_fields


@dataclass
class P:
    x: int = 0
    y: Optional[str] = None
    some_name: int = 3


@dataclass
class Q:
    p: P
    ps: List[P] = field(default_factory=list)


class Opaque:
    def __init__(self, v):
        self.v = v


@dataclass
class Holder:
    o: Optional[Opaque] = None
    n: int = 0


@dataclass
class Node:
    v: int = 0
    next: Optional["Node"] = None


@dataclass(init=False)
class Rounded:
    r: float = 0.0

    def __init__(self, r: float = 0.0):
        self.r = float(round(r))


class View:
    """its fields are given lazily, as the fields of P minus one: what they are depends on the configuration of P"""
    def __init__(self, **kwargs):
        self.__dict__.update(kwargs)


class Ref:
    def __init__(self, node):
        self.node = node


@dataclass
class Tree:
    """recursive only under a default conversion turning Ref into Tree"""
    value: int = 0
    ref: Optional[Ref] = None


def _dc(kind):
    base = settings.serialization.default_conversion

    def default_conversion(tp):
        if tp is Ref:
            return (apischema.conversions.Conversion(lambda r: r.node, source=Ref, target=Tree) if kind == "tree"
                    else apischema.conversions.Conversion(lambda r: 0, source=Ref, target=int))
        return base(tp)
    return default_conversion


NT = NewType("NT", int)


@dataclass
class WithNT:
    n: NT = NT(0)


def op(name, *args):
    if name == "additional_properties":
        settings.additional_properties = args[0]
    elif name == "camel_case":
        settings.camel_case = args[0]
    elif name == "coerce":
        settings.deserialization.coerce = args[0]
    elif name == "fall_back_on_default":
        settings.deserialization.fall_back_on_default = args[0]
    elif name == "no_copy":
        settings.deserialization.no_copy = args[0]
    elif name == "override_ctor":
        settings.deserialization.override_dataclass_constructors = args[0]
    elif name == "exclude_none":
        settings.serialization.exclude_none = args[0]
    elif name == "exclude_defaults":
        settings.serialization.exclude_defaults = args[0]
    elif name == "ser_no_copy":
        settings.serialization.no_copy = args[0]
    elif name == "err_missing":
        settings.errors.missing_property = args[0]
    elif name == "err_minimum":
        settings.errors.minimum = args[0]
    elif name == "base_schema_type":
        d = args[0]
        settings.base_schema.type = (lambda tp: schema(description=d) if tp is P else None) if d else (lambda *_: None)
    elif name == "add_deserializer":
        k = args[0]
        deserializer(apischema.conversions.Conversion((lambda v, k=k: Opaque(v * k)), source=int, target=Opaque))
    elif name == "add_str_deserializer":
        deserializer(apischema.conversions.Conversion((lambda s: Opaque(len(s))), source=str, target=Opaque))
    elif name == "reset_deserializers":
        reset_deserializers(Opaque)
    elif name == "add_serializer":
        k = args[0]
        serializer(apischema.conversions.Conversion((lambda o, k=k: o.v + k), source=Opaque, target=int))
    elif name == "reset_serializer":
        reset_serializer(Opaque)
    elif name == "set_fields_P":
        which = args[0]
        set_object_fields(P, [ObjectField("x", int, False, default=0)] if which == "x" else
                          [ObjectField("x", int, False, default=0), ObjectField("y", Optional[str], False, default=None)])
    elif name == "unset_fields_P":
        set_object_fields(P, None)
    elif name == "set_fields_Node_flat":
        set_object_fields(Node, [ObjectField("v", int, False, default=0)])
    elif name == "unset_fields_Node":
        set_object_fields(Node, None)
    elif name == "set_fields_View_lazy":
        set_object_fields(View, lambda: [f for f in object_fields(P).values() if f.name != "some_name"])
    elif name == "unset_fields_View":
        set_object_fields(View, None)
    elif name == "type_name_P":
        type_name(args[0])(P)
    elif name == "schema_NT":
        schema(min=args[0])(NT)
    elif name == "schema_P":
        schema(max_props=args[0])(P)
    elif name == "class_aliaser_P":
        pre = args[0]
        alias(lambda s, pre=pre: pre + s)(P)
    elif name == "order_P":
        order({"y": order(args[0])})(P)
    elif name == "validator_P":
        lim = args[0]

        def check(p: P, lim=lim):
            if p.x > lim:
                raise ValidationError(f"x > {lim}")
        validator(check, owner=P)
    elif name == "dependent_required_P":
        dependent_required({"y": ["x"]}, owner=P)
    elif name == "serialized_P":
        nm = args[0]

        def extra(p: P) -> int:
            return 1
        extra.__name__ = nm
        serialized(owner=P)(extra)
    elif name == "cache_reset":
        apischema.cache.reset()
    elif name == "cache_set_size":
        apischema.cache.set_size(args[0])
    else:
        raise ValueError(name)


def canon(x):
    if isinstance(x, Opaque):
        return {"__opaque__": x.v}
    if isinstance(x, View):
        return {"__view__": {k: canon(v) for k, v in sorted(x.__dict__.items())}}
    if hasattr(x, "__dataclass_fields__"):
        return {"__cls__": type(x).__name__, **{k: canon(getattr(x, k)) for k in x.__dataclass_fields__}}
    if isinstance(x, (list, tuple)):
        return [canon(y) for y in x]
    if isinstance(x, dict):
        return {str(k): canon(v) for k, v in x.items()}
    return x


TYPES = {"Node": Node, "Rounded": Rounded, "P": P, "Q": Q, "Holder": Holder, "ListP": List[P], "WithNT": WithNT, "Opaque": Opaque, "OptP": Optional[P], "View": View, "Tree": Tree}
VALUES = {"N2": lambda: Node(1, Node(2)), "R1": lambda: Rounded(1.5), "P0": lambda: P(), "P1": lambda: P(5, "s", 4), "Q1": lambda: Q(P(1), [P(2, None)]), "H1": lambda: Holder(Opaque(3), 1),
          "W1": lambda: WithNT(NT(2)), "V1": lambda: View(x=1, y="s", some_name=2),
          "T1": lambda: Tree(1, None), "T2": lambda: Tree(1, Ref(Tree(2, None)))}


def obs(name, *args):
    try:
        if name == "deserialize":
            return ["ok", canon(deserialize(TYPES[args[0]], args[1]))]
        if name == "serialize":
            return ["ok", canon(serialize(TYPES[args[0]], VALUES[args[1]]()))]
        if name == "serialize_dc":      # a per-call default conversion: "int" flattens Ref, "tree" makes Tree recursive
            return ["ok", canon(serialize(TYPES[args[0]], VALUES[args[1]](), default_conversion=_dc(args[2])))]
        if name == "dschema":
            return ["ok", canon(deserialization_schema(TYPES[args[0]]))]
        if name == "sschema":
            return ["ok", canon(serialization_schema(TYPES[args[0]]))]
    except ValidationError as e:
        return ["err", e.errors]
    except Exception as e:
        return ["exc", type(e).__name__]
    raise ValueError(name)


def main():
    hist = json.load(open(sys.argv[1]))
    reset_before = len(sys.argv) > 2 and sys.argv[2] == "reset"
    out = []
    for ev in hist:
        if ev[0] == "op":
            try:
                op(*ev[1:])
            except Exception as e:
                out.append(["opexc", type(e).__name__])
        else:
            if reset_before:
                apischema.cache.reset()
            out.append(obs(*ev[1:]))
    print(json.dumps(out, sort_keys=True))


if __name__ == "__main__":
    main()
