"""Shared machinery: Coq build, obligation audit, in-Coq case evaluation, verdicts, evidence.

Every property module (harness/props/cXX.py) uses the same pipeline:
  1. regenerate coq/Gen/Tables.v from the working tree of the repository (harness/tables.py)
  2. `make` the Coq development; compile coq/Props/<id>.v separately to capture Print Assumptions
  3. generate cases, run the implementation, ask Coq (vm_compute) to evaluate model + spec on them
  4. triage: property violated on a concrete input / broken obligation or correspondence
"""
import fcntl
import hashlib
import json
import os
import random
import re
import subprocess
import sys
import time
from concurrent.futures import ThreadPoolExecutor

ROOT = os.path.dirname(os.path.dirname(os.path.abspath(__file__)))
REPO = os.environ.get("VERIF_REPO", "/repo")
BUILD = os.path.join(ROOT, "build")
COQ = os.path.join(ROOT, "coq")
PY = "/venv/bin/python"

os.makedirs(BUILD, exist_ok=True)

HYGIENE_RE = re.compile(
    r"\b(Admitted|admit|Axiom|Parameter|Conjecture|Hypothesis|Variable|Unset\s+Guard|bypass_check|"
    r"type-in-type|impredicative-set|Admit\s+Obligations|native_compute)\b"
)


def seed():
    try:
        return int(os.environ.get("VERIF_SEED", "20260930"))
    except ValueError:
        return 20260930


def tier_from(argv_tier=None):
    return argv_tier or os.environ.get("VERIF_TIER") or "quick"


def sh(cmd, timeout=600, cwd=None, env=None):
    e = dict(os.environ)
    if env:
        e.update(env)
    try:
        p = subprocess.run(
            cmd, shell=isinstance(cmd, str), cwd=cwd, env=e, timeout=timeout,
            stdout=subprocess.PIPE, stderr=subprocess.STDOUT, text=True,
        )
        return p.returncode, p.stdout
    except subprocess.TimeoutExpired as ex:
        out = ex.stdout if isinstance(ex.stdout, str) else (ex.stdout or b"").decode("utf8", "replace")
        return 124, out + "\n[timeout]"


class Lock:
    def __init__(self, name="build"):
        self.path = os.path.join(BUILD, f".{name}.lock")

    def __enter__(self):
        self.f = open(self.path, "w")
        fcntl.flock(self.f, fcntl.LOCK_EX)
        return self

    def __exit__(self, *a):
        fcntl.flock(self.f, fcntl.LOCK_UN)
        self.f.close()


# --------------------------------------------------------------------------- Coq build

def coq_sources():
    out = []
    for d, _, fs in os.walk(COQ):
        for f in fs:
            if f.endswith(".v"):
                out.append(os.path.relpath(os.path.join(d, f), COQ))
    return sorted(out)


def hygiene():
    """Reject forbidden constructs anywhere in the development (comments are stripped first)."""
    bad = []
    for rel in coq_sources():
        txt = open(os.path.join(COQ, rel)).read()
        txt = strip_coq_comments(txt)
        for i, line in enumerate(txt.split("\n"), 1):
            m = HYGIENE_RE.search(line)
            if m:
                # `Variable`/`Hypothesis` are allowed inside Sections only
                if m.group(1) in ("Variable", "Hypothesis") and in_section(txt, i):
                    continue
                bad.append(f"{rel}:{i}: {line.strip()}")
    return bad


def strip_coq_comments(txt):
    out, depth, i, n = [], 0, 0, len(txt)
    in_str = False
    while i < n:
        c = txt[i]
        if depth == 0 and c == '"':
            in_str = not in_str
            out.append(c)
            i += 1
        elif not in_str and txt.startswith("(*", i):
            depth += 1
            i += 2
        elif not in_str and depth and txt.startswith("*)", i):
            depth -= 1
            i += 2
        else:
            if depth == 0:
                out.append(c)
            elif c == "\n":
                out.append(c)
            i += 1
    return "".join(out)


def in_section(txt, lineno):
    depth = 0
    for i, line in enumerate(txt.split("\n"), 1):
        if i >= lineno:
            break
        if re.match(r"\s*Section\s+\w+", line):
            depth += 1
        elif re.match(r"\s*End\s+\w+", line) and depth:
            depth -= 1
    return depth > 0


def make(jobs=16, timeout=1500):
    """Full .vo build of everything under coq/ (except Props, compiled per property). Returns (ok, log, failed_files)."""
    with Lock("build"):
        from harness import tables
        terr = tables.regenerate()
        srcs = [s for s in coq_sources()]
        proj = "-R . AV\n" + "\n".join(srcs) + "\n"
        pp = os.path.join(COQ, "_CoqProject")
        if not os.path.exists(pp) or open(pp).read() != proj:
            open(pp, "w").write(proj)
        if (not os.path.exists(os.path.join(COQ, "Makefile"))
                or os.path.getmtime(os.path.join(COQ, "Makefile")) < os.path.getmtime(pp)):
            rc, out = sh("coq_makefile -f _CoqProject -o Makefile", cwd=COQ, timeout=120)
            if rc != 0:
                return False, out, ["_CoqProject"], terr
        rc, out = sh(f"timeout {timeout} make -k -j{jobs} 2>&1", cwd=COQ, timeout=timeout + 30)
        out = out[-20000:]
        failed = sorted(set(re.findall(r'File "\./([^"]+)", line \d+, characters [\d-]+:\s*\n(?:.*\n)*?Error', out)))
        ok = rc == 0
        if not ok:
            # everything that (transitively) could not be rebuilt: .vo missing or older than any changed source
            newest_ok = {}
            for s_ in srcs:
                vo = os.path.join(COQ, s_[:-2] + ".vo")
                if not os.path.exists(vo) or os.path.getmtime(vo) < os.path.getmtime(os.path.join(COQ, s_)):
                    if s_ not in failed:
                        failed.append(s_)
            # make -k leaves stale .vo files of dependants in place: remove them so that they are never trusted
            rc2, dep = sh("cat .Makefile.d 2>/dev/null", cwd=COQ)
            changed = True
            bad = set(failed)
            deps = {}
            for line in dep.split("\n"):
                if ":" in line:
                    tg, ds = line.split(":", 1)
                    for t_ in tg.split():
                        if t_.endswith(".vo"):
                            deps.setdefault(t_[:-3] + ".v", set()).update(d_[:-3] + ".v" for d_ in ds.split() if d_.endswith(".vo"))
            while changed:
                changed = False
                for t_, ds in deps.items():
                    if t_ not in bad and ds & bad:
                        bad.add(t_)
                        changed = True
            for t_ in bad:
                vo = os.path.join(COQ, t_[:-2] + ".vo")
                if os.path.exists(vo):
                    os.unlink(vo)
            failed = sorted(bad)
        return ok, out, failed, terr


def vo_ok(rel):
    vo = os.path.join(COQ, rel[:-2] + ".vo")
    src = os.path.join(COQ, rel)
    return os.path.exists(vo) and os.path.getmtime(vo) >= os.path.getmtime(src)


def audit_props(pid):
    """Re-compile coq/Props/<pid>.v and read the Print Assumptions blocks.

    Returns dict(theorems=[names], closed=n, axioms=[...], ok=bool, log=str)."""
    rel = f"Props/{pid}.v"
    src = os.path.join(COQ, rel)
    txt = strip_coq_comments(open(src).read())
    theorems = re.findall(r"^\s*(?:Theorem|Lemma|Corollary)\s+(\w+)", txt, re.M)
    prints = re.findall(r"Print Assumptions\s+(\w+)", txt)
    tmp = os.path.join(BUILD, "audit")
    os.makedirs(tmp, exist_ok=True)
    dst = os.path.join(tmp, f"{pid}_audit.v")
    open(dst, "w").write(open(src).read())
    rc, out = sh(f"timeout 300 coqc -R {COQ} AV {dst}", timeout=320)
    closed = len(re.findall(r"Closed under the global context", out))
    axioms = re.findall(r"^Axioms:\s*\n((?:.+\n)+)", out, re.M)
    res = dict(theorems=theorems, printed=prints, closed=closed, axioms=axioms, rc=rc, log=out[-3000:])
    res["ok"] = rc == 0 and not axioms and closed == len(prints) and set(theorems) <= set(prints) and len(theorems) > 0
    return res


# --------------------------------------------------------------------------- evaluating cases inside Coq

def coq_str(s):
    assert all(32 <= ord(c) < 127 for c in s), repr(s)
    return '"' + s.replace('"', '""') + '"'


def coq_list(xs):
    return "[" + "; ".join(xs) + "]"


def coq_bool(b):
    return "true" if b else "false"


def coq_Z(z):
    return f"({z})%Z"


def coq_nat(n):
    assert 0 <= n < 5000
    return f"{n}%nat"


def coq_opt(x):
    return "None" if x is None else f"(Some {x})"


def run_coq_shards(name, header, items, checker, item_type=None, shard=300, jobs=12, timeout=600):
    """items: list of Coq terms of some type T; checker: Coq term of type `T -> bool`.
    Returns (bad_indices, errors). Each shard file evaluates
       Eval vm_compute in bad_indices checker items.
    """
    d = os.path.join(BUILD, "cases", name)
    os.makedirs(d, exist_ok=True)
    for f in os.listdir(d):
        os.unlink(os.path.join(d, f))
    files = []
    for k in range(0, len(items), shard):
        chunk = items[k:k + shard]
        fn = os.path.join(d, f"s{k // shard}.v")
        body = header + "\nDefinition items" + (f" : list ({item_type})" if item_type else "") + " := " + coq_list(["\n " + x for x in chunk]) + ".\n"
        body += f"Definition chk := {checker}.\n"
        body += ("Fixpoint bad_idx {T} (f : T -> bool) (i : nat) (l : list T) : list nat :=\n"
                 "  match l with nil => nil | cons x r => if f x then bad_idx f (S i) r else cons i (bad_idx f (S i) r) end.\n")
        body += "Eval vm_compute in (bad_idx chk O items).\n"
        open(fn, "w").write(body)
        files.append((k, fn))
    bad, errors = [], []

    def one(kf):
        k, fn = kf
        rc, out = sh(f"ulimit -s unlimited; timeout {timeout} coqc -noglob -R {COQ} AV {fn}", timeout=timeout + 20)
        if rc == 124 or (rc != 0 and not out.strip()):
            # the machine is loaded (several checks in parallel): evaluate this shard once more, alone in its slot, with more time
            rc, out = sh(f"ulimit -s unlimited; timeout {timeout * 4} coqc -noglob -R {COQ} AV {fn}", timeout=timeout * 4 + 20)
            if rc == 124:
                out += f"\n[timeout after {timeout * 4}s]"
        base = fn[:-2]
        for ext in (".vo", ".vos", ".vok", ".glob"):        # only the printed answer is used: the disk is small
            try:
                os.unlink(base + ext)
            except OSError:
                pass
        if rc != 0:
            return k, None, out[-2000:]
        m = re.search(r"=\s*(\[[^\]]*\]|nil)\s*:\s*list nat", out.replace("\n", " "))
        if not m:
            return k, None, out[-2000:]
        body = m.group(1)
        idx = [int(x) for x in re.findall(r"\d+", body)] if body != "nil" else []
        if not idx:
            try:
                os.unlink(fn)          # a shard on which everything agrees is not needed for a replay
            except OSError:
                pass
        return k, idx, ""

    with ThreadPoolExecutor(max_workers=jobs) as ex:
        for k, idx, err in ex.map(one, files):
            if idx is None:
                errors.append((k, err))
            else:
                bad.extend(k + i for i in idx)
    return sorted(bad), errors


def coq_eval_strings(name, header, exprs, timeout=300):
    """Evaluate Coq expressions of type string; returns list of python strings (used for diagnostics only)."""
    d = os.path.join(BUILD, "cases", name)
    os.makedirs(d, exist_ok=True)
    fn = os.path.join(d, "diag.v")
    body = header + "\n"
    for i, e in enumerate(exprs):
        body += f"Eval vm_compute in ({e}).\n"
    open(fn, "w").write(body)
    rc, out = sh(f"ulimit -s unlimited; timeout {timeout} coqc -noglob -R {COQ} AV {fn}", timeout=timeout + 20)
    if rc != 0:
        return [f"<coq error: {out[-500:]}>"] * len(exprs)
    parts = re.split(r"^\s*=\s", out, flags=re.M)[1:]
    res = []
    for p in parts:
        p = re.sub(r"\s*:\s*[\w. ()]+\s*$", "", p.strip(), flags=re.S)
        res.append(re.sub(r"\s+", " ", p))
    return res


# --------------------------------------------------------------------------- known findings, verdicts, evidence

def load_known():
    p = os.path.join(ROOT, "known_findings.json")
    if not os.path.exists(p):
        return {"findings": [], "fixed": []}
    return json.load(open(p))


class Run:
    """Collects what a check did and produces verdict + evidence."""

    def __init__(self, pid, tier):
        self.pid, self.tier = pid, tier
        self.t0 = time.time()
        self.seed = seed()
        self.rng = random.Random(self.seed)
        self.violations = []      # (kind, replay dict)
        self.known_hits = {}      # finding id -> count
        self.coverage = {}
        self.assumptions = []
        self.samples = []
        self.evaluations = 0
        self.fingerprints = set()
        self.hist = {}
        self.broken = []          # names of obligations / correspondences that no longer check
        self.obligations = 0
        self.discharged = 0
        self.checker_cmd = ""
        self.trusted = []
        self.known = [f for f in load_known()["findings"] if f["property"] == pid]

    def count(self, key, n=1):
        self.hist[key] = self.hist.get(key, 0) + n

    def note_case(self, fingerprint, sample=None, nontrivial=True):
        self.evaluations += 1
        if nontrivial:
            h = hashlib.sha1(repr(fingerprint).encode()).hexdigest()
            if h not in self.fingerprints:
                self.fingerprints.add(h)
                if sample is not None and len(self.samples) < 6:
                    self.samples.append(sample)

    # -- Coq side
    def coq_build(self, needed):
        """needed: list of .v files (relative to coq/) whose .vo the property relies on (besides Props/<pid>.v)."""
        bad = hygiene()
        ok, log, failed, terr = make()
        self.trusted_extra = []
        if terr:
            self.broken.append("translator: " + "; ".join(terr))
        if bad:
            self.broken.append("hygiene: " + "; ".join(bad[:5]))
        missing = [f for f in needed if not vo_ok(f)]
        if missing:
            self.broken.append("coq build failed for " + ", ".join(missing))
            self.build_log = log
        a = audit_props(self.pid) if not missing else dict(theorems=[], printed=[], closed=0, axioms=[], ok=False,
                                                             log=log[-3000:], rc=1)
        self.audit = a
        self.obligations = max(len(a["printed"]), len(a["theorems"]), 1)
        self.discharged = a["closed"] if a["rc"] == 0 else 0
        if not a["ok"] and not missing:
            self.broken.append(f"Props/{self.pid}.v does not check: " + a["log"][-600:])
        self.checker_cmd = (f"make -C {COQ} (coq_makefile, full .vo build, coqc 8.16.1) ; "
                            f"coqc -R {COQ} AV Props/{self.pid}.v (Print Assumptions audit)")
        return not self.broken

    # -- verdict
    def violation(self, what, replay, no_input=False):
        self.violations.append((what, replay, no_input))

    def known_match(self, tag):
        for f in self.known:
            if f["match"] == tag:
                self.known_hits[f["id"]] = self.known_hits.get(f["id"], 0) + 1
                return True
        return False

    def finish(self, rule, level="proof", extra=None):
        os.makedirs(os.path.join(ROOT, "evidence"), exist_ok=True)
        os.makedirs(os.path.join(BUILD, "replay"), exist_ok=True)
        lines = []
        for f in self.known:
            if f["id"] in self.known_hits:
                lines.append(f"KNOWN-FINDING: property={self.pid} {f['what']}")
        vio_paths = []
        for i, (what, replay, no_input) in enumerate(self.violations[:5]):
            path = os.path.join(BUILD, "replay", f"{self.pid}_{i}.json")
            json.dump(dict(property=self.pid, what=what, replay=replay), open(path, "w"), indent=1, default=str)
            vio_paths.append((path, no_input, what))
        if not self.violations and self.broken:
            path = os.path.join(BUILD, "replay", f"{self.pid}_broken.json")
            json.dump(dict(property=self.pid, what="proof obligation or correspondence no longer checks",
                           broken=self.broken), open(path, "w"), indent=1, default=str)
            vio_paths.append((path, True, "; ".join(self.broken)[:300]))
        cov = dict(
            obligations=self.obligations, discharged=self.discharged, checker_cmd=self.checker_cmd,
            trusted_base=self.trusted, evaluations=self.evaluations,
            distinct_nontrivial=len(self.fingerprints), rule=rule, samples=self.samples[:6] or ["<none>"],
            histogram=self.hist, theorems=getattr(self, "audit", {}).get("theorems", []),
            known_findings_hit=self.known_hits, broken=self.broken,
        )
        if extra:
            cov.update(extra)
        ev = dict(property_id=self.pid, tier=self.tier, seed=self.seed, level=level, coverage=cov,
                  assumptions=self.assumptions, wall_s=round(time.time() - self.t0, 2),
                  violations=len(vio_paths))
        json.dump(ev, open(os.path.join(ROOT, "evidence", f"{self.pid}.json"), "w"), indent=1, default=str)
        for l in lines:
            print(l)
        for path, no_input, what in vio_paths:
            print(f"# {what}"[:400])
            print(f"VIOLATION property={self.pid} replay={path}" + (" no-failing-input-found" if no_input else ""))
        print(f"[{self.pid}] tier={self.tier} seed={self.seed} evaluations={self.evaluations} "
              f"distinct={len(self.fingerprints)} obligations={self.discharged}/{self.obligations} "
              f"violations={len(vio_paths)} wall={ev['wall_s']}s")
        return 1 if vio_paths else 0


TRUSTED_COMMON = [
    "Coq 8.16.1 kernel (coqc); vm_compute used for Examples, refuted-witnesses, finite table obligations and case evaluation; native_compute not used",
    "axioms: none (every Print Assumptions reports 'Closed under the global context'; audited on each run)",
    "no extraction: model and spec are evaluated inside Coq (vm_compute) on the cases the implementation ran",
    "harness: Python generators, materializer (descriptor -> real Python types), canonicalisation and Coq term printer under /verif/harness",
    "CPython 3.12 semantics of isinstance/dict/sorted etc. are modelled, not verified",
]


def load_corpus(pid):
    d = os.path.join(ROOT, "corpus", pid)
    out = []
    if os.path.isdir(d):
        for f in sorted(os.listdir(d)):
            if f.endswith(".json"):
                out.append(json.load(open(os.path.join(d, f))))
    return out
