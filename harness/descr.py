"""Type / universe / data descriptors shared by the deserialization, serialization and schema harnesses.

A descriptor is plain JSON-able Python data; it is rendered (a) as Python source that defines the real types
(the materialiser) and (b) as a Gallina term of the model's `ty` / `univ` / `pyval` / `value` types.
"""
import math

from harness.core import coq_str, coq_list, coq_Z, coq_bool, coq_nat, coq_opt

# ------------------------------------------------------------------ constraints
CKEYS = ["min", "max", "exc_min", "exc_max", "mult_of", "min_len", "max_len", "pattern",
         "min_items", "max_items", "unique", "min_props", "max_props"]


def num_coq(x):
    """constraint number: int -> CI, float (quarter multiple) -> CF"""
    if isinstance(x, int):
        return f"(CI {coq_Z(x)})"
    q = x * 4
    assert q == int(q)
    return f"(CF {coq_Z(int(q))})"


def con_coq(c):
    if c is None:
        return "None"
    parts = []
    for k in ["min", "max", "exc_min", "exc_max", "mult_of"]:
        parts.append(coq_opt(num_coq(c[k])) if c.get(k) is not None else "None")
    for k in ["min_len", "max_len"]:
        parts.append(coq_opt(coq_nat(c[k])) if c.get(k) is not None else "None")
    parts.append(coq_opt(coq_str(c["pattern"])) if c.get("pattern") is not None else "None")
    for k in ["min_items", "max_items"]:
        parts.append(coq_opt(coq_nat(c[k])) if c.get(k) is not None else "None")
    parts.append(coq_bool(bool(c.get("unique"))))
    for k in ["min_props", "max_props"]:
        parts.append(coq_opt(coq_nat(c[k])) if c.get(k) is not None else "None")
    return "(mkC " + " ".join(parts) + ")"


def con_opt_coq(c):
    return "None" if c is None else f"(Some {con_coq(c)})"


def con_src(c):
    args = []
    for k in CKEYS:
        if c.get(k) is not None and c.get(k) is not False:
            v = c[k]
            if k == "pattern":
                args.append(f"pattern={('^' + v)!r}")
            else:
                args.append(f"{k}={v!r}")
    return "schema(" + ", ".join(args) + ")"


# ------------------------------------------------------------------ prims / defaults
def prim_coq(p):
    if p is None:
        return "LNone"
    if isinstance(p, bool):
        return f"(LBool {coq_bool(p)})"
    if isinstance(p, int):
        return f"(LInt {coq_Z(p)})"
    return f"(LStr {coq_str(p)})"


def fl_coq(x):
    if isinstance(x, float) and math.isnan(x):
        return "FNan"
    if isinstance(x, float) and math.isinf(x):
        return f"(FInf {coq_bool(x < 0)})"
    q = x * 4
    if q != int(q) or abs(x) > 2 ** 60:
        raise ValueError(f"float {x!r} is outside the modelled dyadic fragment")
    return f"(FQ {coq_Z(int(q))})"


# ------------------------------------------------------------------ types
COLL_SPELL = {"list": ["List[{}]", "list[{}]"],
              "sequence": ["Sequence[{}]"], "collection": ["Collection[{}]"], "abstractset": ["AbstractSet[{}]"],
              "set": ["Set[{}]", "set[{}]"],
              "frozenset": ["FrozenSet[{}]", "frozenset[{}]"],
              "vartuple": ["Tuple[{}, ...]", "tuple[{}, ...]"]}
COLL_COQ = {"list": "KList", "set": "KSet", "frozenset": "KFrozenSet", "vartuple": "KVarTuple",
            "sequence": "KSeq", "collection": "KColl", "abstractset": "KAbsSet"}
MAP_SPELL = ["Dict[{}, {}]", "Mapping[{}, {}]", "dict[{}, {}]"]


def ty_src(t, spell=0, quote=True):
    k = t[0]
    if k == "none":
        return "NoneType"
    if k in ("bool", "int", "float", "str"):
        return k
    if k == "any":
        return "Any"
    if k == "coll":
        sp = COLL_SPELL[t[1]]
        return sp[spell % len(sp)].format(ty_src(t[2], spell, quote))
    if k == "tuple":
        return "Tuple[" + ", ".join(ty_src(x, spell, quote) for x in t[1]) + "]" if t[1] else "Tuple[()]"
    if k == "map":
        return MAP_SPELL[spell % len(MAP_SPELL)].format(ty_src(t[1], spell, quote), ty_src(t[2], spell, quote))
    if k == "lit":
        return "Literal[" + ", ".join(repr(p) for p in t[1]) + "]"
    if k == "enum":
        return f"E{t[1]}"
    if k == "con":
        return f"Annotated[{ty_src(t[2], spell, quote)}, {con_src(t[1])}]"
    if k == "union":
        if len(t[1]) == 2 and tuple(t[1][1]) == ("none",) and tuple(t[1][0]) != ("none",) and spell % 2 == 0:
            return f"Optional[{ty_src(t[1][0], spell, quote)}]"   # Optional[X] is Union[X, None]: same order
        return "Union[" + ", ".join(ty_src(x, spell, quote) for x in t[1]) + "]"
    if k == "obj":
        return f'"C{t[1]}"' if quote else f"C{t[1]}"
    if k == "newtype":
        return f"NT{t[1]}"
    raise ValueError(t)


def ty_coq(t):
    k = t[0]
    if k in ("none", "bool", "int", "float", "str", "any"):
        return {"none": "TNone", "bool": "TBool", "int": "TInt", "float": "TFloat", "str": "TStr", "any": "TAny"}[k]
    if k == "coll":
        return f"(TColl {COLL_COQ[t[1]]} {ty_coq(t[2])})"
    if k == "tuple":
        return f"(TTuple {coq_list([ty_coq(x) for x in t[1]])})"
    if k == "map":
        return f"(TMap {ty_coq(t[1])} {ty_coq(t[2])})"
    if k == "lit":
        return f"(TLit {coq_list([prim_coq(p) for p in t[1]])})"
    if k == "enum":
        return f"(TEnum {coq_nat(t[1])})"
    if k == "con":
        return f"(TCon {con_coq(t[1])} {ty_coq(t[2])})"
    if k == "union":
        return f"(TUnion {coq_list([ty_coq(x) for x in t[1]])})"
    if k == "obj":
        return f"(TObj {coq_nat(t[1])})"
    raise ValueError(t)


# ------------------------------------------------------------------ defaults (python expr, coq value)
def order_src(o):
    k, v = o
    return f"order({v})" if k == "order" else f"order({k}={v!r})"


def default_src(dv):
    k = dv[0]
    if k == "none":
        return "None"
    if k == "undefined":
        return "Undefined"
    if k in ("int", "str", "bool", "float"):
        return repr(dv[1])
    if k == "emptylist":
        return None  # default_factory=list
    raise ValueError(dv)


def default_coq(dv):
    k = dv[0]
    if k == "none":
        return "VNone"
    if k == "undefined":
        return "VUndefined"
    if k == "int":
        return f"(VInt {coq_Z(dv[1])})"
    if k == "str":
        return f"(VStr {coq_str(dv[1])})"
    if k == "bool":
        return f"(VBool {coq_bool(dv[1])})"
    if k == "float":
        return f"(VFloat {fl_coq(dv[1])})"
    if k == "emptylist":
        return "(VList [])"
    raise ValueError(dv)


# ------------------------------------------------------------------ universe
def universe_src(u, spell=0):
    L = ["from dataclasses import dataclass, field",
         "from enum import Enum",
         "from typing import *",
         "from apischema import alias, schema, dependent_required, order, serialized, Undefined, UndefinedType, type_name",
         "from apischema.metadata import fall_back_on_default, skip, none_as_undefined",
         "from apischema.fields import with_fields_set",
         "NoneType = type(None)",
         "def _is_none(x): return x is None",
         "def _is_zero(x): return (isinstance(x, (int, float)) and x == 0)",
         "def _is_empty(x): return isinstance(x, str) and x == ''",
         ""]
    for i, vals in enumerate(u.get("enums", [])):
        L.append(f"class E{i}(Enum):")
        for j, p in enumerate(vals):
            L.append(f"    M{j} = {p!r}")
        L.append("")
    for cid, c in enumerate(u.get("classes", [])):
        kind = c["kind"]
        if kind == "typeddict":
            req = [f for f in c["fields"] if f["required"]]
            opt = [f for f in c["fields"] if not f["required"]]
            # declaration order of a TypedDict split in required / optional parts: required first
            L.append(f"class C{cid}_req(TypedDict):")
            for f in req:
                L.append(f"    {f['name']}: {field_ty_src(f, spell)}")
            if not req:
                L.append("    pass")
            L.append(f"class C{cid}(C{cid}_req, total=False):")
            for f in opt:
                L.append(f"    {f['name']}: {field_ty_src(f, spell)}")
            if not opt:
                L.append("    pass")
        elif kind == "namedtuple":
            L.append(f"class C{cid}(NamedTuple):")
            for f in c["fields"]:
                if f["required"]:
                    L.append(f"    {f['name']}: {field_ty_src(f, spell)}")
                else:
                    L.append(f"    {f['name']}: {field_ty_src(f, spell)} = {default_src(f['default'])}")
            if not c["fields"]:
                L.append("    pass")
        else:
            if c.get("cls_order"):
                L.append("@order({" + ", ".join(f"{k!r}: {order_src(o)}" for k, o in c["cls_order"]) + "})")
            if c.get("fields_set"):
                L.append("@with_fields_set")
            L.append("@dataclass")
            L.append(f"class C{cid}:")
            for f in c["fields"]:
                md = []
                if f.get("alias") and f["alias"] != f["name"]:
                    md.append(f"alias({f['alias']!r})")
                if f.get("con"):
                    md.append(con_src(f["con"]))
                if f.get("fallback"):
                    md.append("fall_back_on_default")
                if f.get("skip_default") or f.get("skip_if"):
                    args = []
                    if f.get("skip_default"):
                        args.append("serialization_default=True")
                    if f.get("skip_if"):
                        args.append("serialization_if=_is_" + f["skip_if"])
                    md.append("skip(" + ", ".join(args) + ")")
                if f.get("none_undef"):
                    md.append("none_as_undefined")
                if f.get("order"):
                    md.append(order_src(f["order"]))
                mds = (", metadata=" + " | ".join(md)) if md else ""
                ts = ty_src(f["ty"], spell)
                if f.get("none_undef"):
                    ts = f"Optional[{ts}]"
                if f.get("undefined"):
                    ts = f"Union[{ts}, UndefinedType]"
                if f["required"]:
                    if md:
                        L.append(f"    {f['name']}: {ts} = field({mds[2:]})")
                    else:
                        L.append(f"    {f['name']}: {ts}")
                else:
                    ds = default_src(f["default"])
                    if ds is None:
                        L.append(f"    {f['name']}: {ts} = field(default_factory=list{mds})")
                    else:
                        L.append(f"    {f['name']}: {ts} = field(default={ds}{mds})")
            for m in c.get("methods", []):
                args = [repr(m["alias"])] if m.get("alias") and m["alias"] != m["name"] else []
                if m.get("order"):
                    args.append("order=" + order_src(m["order"]))
                rt = ty_src(m["ty"], spell)
                if m.get("undefined"):
                    rt = f"Union[{rt}, UndefinedType]"
                L.append(f"    @serialized({', '.join(args)})")
                L.append(f"    def {m['name']}(self) -> {rt}:")
                L.append(f"        return {default_src(m['result']) or '[]'}")
            if not c["fields"] and not c.get("methods"):
                L.append("    pass")
            if c.get("depreq"):
                dr = "{" + ", ".join(f"{k!r}: {list(v)!r}" for k, v in c["depreq"]) + "}"
                L.append(f"dependent_required({dr}, owner=C{cid})")
        tn = c.get("type_name")
        if tn:
            if tn[0] == "str":
                L.append(f"type_name({tn[1]!r})(C{cid})")
            elif tn[0] == "none":
                L.append(f"type_name(None)(C{cid})")
            elif tn[0] == "factory":
                L.append(f"type_name(lambda tp, *args: {tn[1]!r} + tp.__name__)(C{cid})")
        L.append("")
    return "\n".join(L)


def field_ty_src(f, spell):
    """NamedTuple / TypedDict fields carry alias / schema through Annotated metadata"""
    md = []
    if f.get("alias") and f["alias"] != f["name"]:
        md.append(f"alias({f['alias']!r})")
    if f.get("con"):
        md.append(con_src(f["con"]))
    s = ty_src(f["ty"], spell)
    # note: constraints given through Annotated are type annotations (merged like TCon)
    return f"Annotated[{s}, {', '.join(md)}]" if md else s


KIND_COQ = {"dataclass": "KData", "namedtuple": "KNamedTuple", "typeddict": "KTypedDict"}
SKIPIF_COQ = {None: "SkipNever", "none": "SkipIfNone", "zero": "SkipIfZero", "empty": "SkipIfEmptyStr"}


def order_plain_coq(o):
    k, v = o
    if k == "order":
        return f"(OOrder {coq_Z(v)})"
    return f"({'OAfter' if k == 'after' else 'OBefore'} {coq_str(v)})"


def order_coq(o):
    return "None" if o is None else f"(Some {order_plain_coq(o)})"


def fser_coq(f):
    if not any(f.get(k) for k in ("skip_default", "skip_if", "none_undef", "undefined", "order")):
        return "no_fser"
    return (f"(mkFS {coq_bool(bool(f.get('skip_default')))} {SKIPIF_COQ[f.get('skip_if')]} "
            f"{coq_bool(bool(f.get('none_undef')))} {coq_bool(bool(f.get('undefined')))} {order_coq(f.get('order'))})")


def field_decl_order(c):
    if c["kind"] == "typeddict":
        return [f for f in c["fields"] if f["required"]] + [f for f in c["fields"] if not f["required"]]
    return c["fields"]


def universe_coq(u):
    cls = []
    for c in u.get("classes", []):
        fs = []
        for f in field_decl_order(c):
            dv = ("VUndefined" if c["kind"] == "typeddict" else default_coq(f["default"])) if not f["required"] else "VNone"
            fs.append(f"(mkF {coq_str(f['name'])} {coq_str(f.get('alias') or f['name'])} {ty_coq(f['ty'])} "
                      f"{coq_bool(f['required'])} {dv} {coq_bool(bool(f.get('fallback')))} {con_opt_coq(f.get('con'))} "
                      f"{fser_coq(f)})")
        dr = coq_list([f"({coq_str(k)}, {coq_list([coq_str(x) for x in v])})" for k, v in c.get("depreq", [])])
        ms = coq_list([f"(mkSM {coq_str(m['name'])} {coq_str(m.get('alias') or m['name'])} {ty_coq(m['ty'])} "
                       f"{default_coq(m['result'])} {coq_bool(bool(m.get('undefined')))} {order_coq(m.get('order'))})"
                       for m in c.get("methods", [])])
        co = coq_list([f"({coq_str(k)}, {order_plain_coq(o)})" for k, o in c.get("cls_order", [])])
        cls.append(f"(mkCls {KIND_COQ[c['kind']]} {coq_list(fs)} {dr} {ms} {co} {coq_bool(bool(c.get('fields_set')))})")
    ens = [coq_list([prim_coq(p) for p in vals]) for vals in u.get("enums", [])]
    return f"(mkU {coq_list(cls)} {coq_list(ens)})"


# ------------------------------------------------------------------ data (pyval) : python objects <-> coq
class Other:
    """a datum whose class is not a JSON class; `make()` builds the real object"""

    def __init__(self, tag):
        self.tag = tag

    def make(self):
        return {"tuple": (1, 2), "bytes": b"x", "set": {1}, "object": _Obj(), "bytearray": bytearray(b"x"),
                "complex": 1j, "Decimal": __import__("decimal").Decimal("1.5")}[self.tag]

    def __repr__(self):
        return f"Other({self.tag!r})"


class _Obj:
    """an opaque non-JSON object; every instance stands for the same datum (data_real builds a new one per call)"""
    def __eq__(self, other):
        return type(other) is type(self)

    def __hash__(self):
        return 0


_Obj.__name__ = "object"


def data_coq(d):
    if isinstance(d, Other):
        return f"(POther {coq_str(d.tag)})"
    if d is None:
        return "PNone"
    if isinstance(d, bool):
        return f"(PBool {coq_bool(d)})"
    if isinstance(d, int):
        return f"(PInt {coq_Z(d)})"
    if isinstance(d, float):
        return f"(PFloat {fl_coq(d)})"
    if isinstance(d, str):
        return f"(PStr {coq_str(d)})"
    if isinstance(d, list):
        return f"(PList {coq_list([data_coq(x) for x in d])})"
    if isinstance(d, dict):
        return f"(PDict {coq_list([f'({coq_str(k)}, {data_coq(v)})' for k, v in d.items()])})"
    raise ValueError(repr(d))


OTHERS_BY_ID = {}


def data_real(d):
    """replace Other placeholders by real objects (remembered by identity: a method may return the input itself)"""
    if isinstance(d, Other):
        o = d.make()
        OTHERS_BY_ID[id(o)] = (o, d.tag)
        if len(OTHERS_BY_ID) > 20000:
            OTHERS_BY_ID.clear()
            OTHERS_BY_ID[id(o)] = (o, d.tag)
        return o
    if isinstance(d, list):
        return [data_real(x) for x in d]
    if isinstance(d, dict):
        return {k: data_real(v) for k, v in d.items()}
    return d


def data_json(d):
    """JSON-able description for replay files"""
    if isinstance(d, Other):
        return {"__other__": d.tag}
    if isinstance(d, float) and (math.isnan(d) or math.isinf(d)):
        return {"__float__": repr(d)}
    if isinstance(d, list):
        return [data_json(x) for x in d]
    if isinstance(d, dict):
        return {k: data_json(v) for k, v in d.items()}
    return d


def data_unjson(d):
    if isinstance(d, dict) and "__other__" in d:
        return Other(d["__other__"])
    if isinstance(d, dict) and "__float__" in d:
        return float(d["__float__"])
    if isinstance(d, list):
        return [data_unjson(x) for x in d]
    if isinstance(d, dict):
        return {k: data_unjson(v) for k, v in d.items()}
    return d


# ------------------------------------------------------------------ values: python results -> coq `value`
def value_coq(v, mod, sort_sets=True):
    import dataclasses
    import enum
    if id(v) in OTHERS_BY_ID and OTHERS_BY_ID[id(v)][0] is v:
        return f"(VOther {coq_str(OTHERS_BY_ID[id(v)][1])})"
    if v is None:
        return "VNone"
    if type(v).__name__ == "UndefinedType":
        return "VUndefined"
    if isinstance(v, enum.Enum):
        eid = int(type(v).__name__[1:])
        return f"(VEnum {coq_nat(eid)} {prim_coq(v.value)})"
    if isinstance(v, bool):
        return f"(VBool {coq_bool(v)})"
    if isinstance(v, int):
        return f"(VInt {coq_Z(v)})"
    if isinstance(v, float):
        return f"(VFloat {fl_coq(v)})"
    if isinstance(v, str):
        return f"(VStr {coq_str(v)})"
    if isinstance(v, list):
        return f"(VList {coq_list([value_coq(x, mod, sort_sets) for x in v])})"
    if isinstance(v, set):
        return f"(VSet {coq_list((sorted if sort_sets else list)(value_coq(x, mod, sort_sets) for x in v))})"
    if isinstance(v, frozenset):
        return f"(VFrozenSet {coq_list((sorted if sort_sets else list)(value_coq(x, mod, sort_sets) for x in v))})"
    if isinstance(v, tuple) and hasattr(v, "_fields"):
        cid = int(type(v).__name__[1:])
        fs = [f"({coq_str(n)}, {value_coq(getattr(v, n), mod, sort_sets)})" for n in v._fields]
        return f"(VObj {coq_nat(cid)} {coq_list(fs)})"
    if isinstance(v, tuple):
        return f"(VTuple {coq_list([value_coq(x, mod, sort_sets) for x in v])})"
    if isinstance(v, dict):   # compared order-insensitively (python dict equality): emitted in a canonical order
        return f"(VDict {coq_list(sorted(f'({value_coq(k, mod, sort_sets)}, {value_coq(x, mod, sort_sets)})' for k, x in v.items()))})"
    if dataclasses.is_dataclass(v):
        cid = int(type(v).__name__[1:])
        fs = [f"({coq_str(f.name)}, {value_coq(getattr(v, f.name), mod, sort_sets)})" for f in dataclasses.fields(v)]
        fset = v.__dict__.get("_apischema_fields_set")
        if fset is not None:
            fs.append(f"({coq_str('~fields_set')}, (VList {coq_list([f'(VStr {coq_str(n)})' for n in sorted(fset)])}))")
        return f"(VObj {coq_nat(cid)} {coq_list(fs)})"
    return f"(VOther {coq_str(type(v).__name__)})"


def loc_coq(loc):
    return coq_list([f"(KIdx {coq_nat(k)})" if isinstance(k, int) and not isinstance(k, bool) else f"(KStr {coq_str(str(k))})"
                     for k in loc])


def errors_coq(errs):
    return coq_list([f"({loc_coq(e['loc'])}, {coq_str(e['err'])})" for e in errs])
