"""Shared case production for the serialization properties (C04, C05, C07, C08-ser, C15)."""
from harness import core, gen_deser as G, gen_ser as S, pyrun
from harness.descr import ty_src, universe_src, universe_coq, value_coq

C_SMODEL = ("(fun c : " + S.CASE_TYPE + " => let '(u, o, t, v, ob) := c in sres_matches (serialize u o sfuel0 t v) ob)")


class SCase:
    __slots__ = ("uidx", "u", "opts", "t", "value", "kind", "payload", "coq", "tag", "vrepr")

    def to_json(self):
        return dict(universe=self.u, opts={k: v for k, v in self.opts.items()}, type=self.t, python_source=universe_src(self.u),
                    python_type=ty_src(self.t), value=self.vrepr, observed_kind=self.kind, observed=repr(self.payload), tag=self.tag)


class SProducer:
    def __init__(self, R, n_universes, types_per_u, values_per_t, depth=2, make_opts=None, pass_through=True,
                 universe_filter=None, make_universe=None, canonical=False):
        self.R, self.rng = R, R.rng
        self.cfg = (n_universes, types_per_u, values_per_t, depth)
        self.cases, self.universes, self.hooks = [], [], []
        self.make_opts = make_opts
        self.pass_through = pass_through
        self.universe_filter = universe_filter
        self.make_universe = make_universe
        self.canonical = canonical

    def run(self):
        rng = self.rng
        nu, nt, nv, depth = self.cfg
        for ui in range(nu):
            u = (self.make_universe or S.gen_universe)(rng)
            if not S.universe_ser_ok(u) or (self.universe_filter and not self.universe_filter(u)):
                self.R.count("universe_skipped")
                continue
            try:
                # mappings are spelled Dict / dict, never Mapping: with no_copy the serializer returns a dict as is only when the
                # annotation is a dict subclass, and the model (Ser/Model.v) has the Dict behaviour only (see DESIGN, C04 limits)
                U = G.Universe(u, spell=rng.choice([0, 2, 3, 5, 6, 8, 9]))
            except Exception as e:
                self.R.count("universe_rejected:" + type(e).__name__)
                continue
            uidx = len(self.universes)
            self.universes.append((f"U{uidx}", universe_coq(u)))
            VG = S.ValueGen(rng, U, canonical=self.canonical)
            types = []
            for cid in range(len(u["classes"])):
                types.append(("obj", cid))
            while len(types) < nt:
                t = G.gen_type(rng, u, rng.randint(0, depth))
                if S.ser_ok_type(t, u):
                    types.append(t)
            for t in types:
                from harness.deser_run import pyrun_reset
                t = U.canon(t)
                pyrun_reset()
                try:
                    U.type(t)
                except Exception as e:
                    self.R.count("type_rejected:" + type(e).__name__)
                    continue
                for _ in range(nv):
                    opts = (self.make_opts or (lambda r: S.gen_sopts(r, self.pass_through)))(rng)
                    try:
                        v = VG.value(t, 3, top=True)
                    except Exception as e:
                        self.R.count("value_failed:" + type(e).__name__)
                        continue
                    if not S.in_fragment(v):
                        continue
                    self.one(U, uidx, u, opts, t, v)
            U.close()
        return self.cases

    def one(self, U, uidx, u, opts, t, v, tag="gen"):
        t = U.canon(t)      # one order per set of union alternatives / literal values (typing compares them as sets)
        c = SCase()
        c.uidx, c.u, c.opts, c.t, c.value, c.tag = uidx, u, opts, t, v, tag
        c.vrepr = repr(v)
        try:
            c.kind, c.payload = S.observe(U, t, v, opts)
            ob = S.obs_coq(c.kind, c.payload, v, U)
            c.coq = S.case_coq(f"U{uidx}", opts, t, v, ob, U)
        except ValueError:
            self.R.count("outside_fragment")
            return None
        from harness.deser_run import type_tag
        fp = (type_tag(t), c.kind, tuple(sorted(k for k, x in opts.items() if x is True)),
              tuple(sorted(k for k, x in opts["pt"].items() if x)), type(v).__name__)
        self.R.note_case(fp, sample=dict(type=ty_src(t), value=c.vrepr, options={k: x for k, x in opts.items()},
                                         outcome=c.kind, result=repr(c.payload)))
        self.R.count("outcome:" + c.kind)
        self.R.count("root_type:" + t[0])
        for h in self.hooks:
            h(U, c)
        self.cases.append(c)
        return c

    def header(self):
        return S.HEADER + "\n".join(f"Definition {n} : univ := {d}." for n, d in self.universes) + "\n"

    def check(self, name, checker, subset=None):
        cases = self.cases if subset is None else subset
        bad, errs = core.run_coq_shards(name, self.header(), [c.coq for c in cases], checker, item_type=S.CASE_TYPE, shard=250)
        for k, e in errs:
            self.R.broken.append(f"coq evaluation of cases failed ({name}, shard {k}): {e[-400:]}")
        return [cases[i] for i in bad]

    def diagnose(self, name, case):
        expr = f"let '(u, o, t, v, ob) := ({case.coq}) in (show_sres (serialize u o sfuel0 t v))"
        return core.coq_eval_strings(name, self.header(), [expr])[0]
