"""Writes MANIFEST.json from the per-property registry below (kept in one place so it stays valid)."""
import json
import os

ROOT = os.path.dirname(os.path.dirname(os.path.abspath(__file__)))

CHECKS = {
    "C16": dict(
        text="Coq theorems about a hand-written Gallina model of sort_by_order/get_order_overriding, for element lists of any "
             "length: the result is a permutation whenever names are distinct and every after/before chain is anchored "
             "(C16_sort_total_permutation), any returned result is a permutation even with cycles (C16_sort_never_loses), "
             "order-valued elements come out ascending and stably (C16_roots_ascending, C16_declaration_order_within_value), "
             "attachment shape, class-level override wins. Tie: correspondence — generated classes (source text) are run "
             "through serialize, both JSON schemas and graphql_schema and the observed key order is compared inside Coq "
             "(vm_compute) with the model on the same element list.",
        note="Trusted: Coq kernel, the hand-written model's faithfulness as validated by the correspondence "
             "(exhaustive over ordering specs for <=2-3 fields in quick, <=3-4 in thorough, plus random classes with "
             "InitVar/init=False/serialized methods/resolvers/class-level overrides/inheritance), the harness' rule for "
             "which elements each view sorts. No axioms.",
        technique="Coq proof (counting argument over the attachment forest) + differential correspondence on 4 views",
        design_ref="DESIGN.md §4 C16",
    ),
}

NOT_YET = {}


def main():
    props = [json.loads(l) for l in open(os.path.join(ROOT, "properties.jsonl"))]
    checks, na = [], []
    for p in props:
        pid = p["id"]
        if pid in CHECKS:
            c = CHECKS[pid]
            checks.append(dict(
                property_id=pid,
                quick_cmd=f"./vcheck {pid} --tier quick",
                thorough_cmd=f"./vcheck {pid} --tier thorough",
                evidence_file=f"/verif/evidence/{pid}.json",
                replay_cmd_template="./vcheck replay {path}",
                engine="coq+correspondence",
                level_claimed=dict(category="proof", text=c["text"], design_ref=c["design_ref"]),
                level_note=c["note"],
                technique=c["technique"],
            ))
        else:
            na.append(dict(property_id=pid, reason=NOT_YET.get(pid, "check not built yet in this session (work in progress; see DESIGN.md §4)")))
    m = dict(
        version=1,
        setup_cmd="./vcheck setup",
        hooks=dict(guard="APISCHEMA_VERIF", enable="no source hooks are needed; checks drive the public API of the working tree (PYTHONPATH=/repo)",
                   baseline_off_cmd="cd /repo && /venv/bin/python -m pytest -ra -q -p no:cacheprovider --timeout=900 --continue-on-collection-errors",
                   source_commits=[], add_only=True),
        engines=[dict(name="coq+correspondence", path="/verif/vcheck", serves_properties=sorted(CHECKS),
                      kind_free_text="Coq 8.16 development under /verif/coq (models, specs, theorems); Python harness generates cases, "
                                     "runs the implementation and evaluates model/spec inside Coq with vm_compute")],
        checks=checks,
        notes="Genuine defects found are repaired by unguarded 'fix:' commits in /repo and listed in /verif/known_findings.json.",
        not_applicable=na,
    )
    json.dump(m, open(os.path.join(ROOT, "MANIFEST.json"), "w"), indent=1)


if __name__ == "__main__":
    main()
