"""Writes MANIFEST.json from the per-property registry below (kept in one place so it stays valid)."""
import json
import os

ROOT = os.path.dirname(os.path.dirname(os.path.abspath(__file__)))

CHECKS = {
    "C16": dict(
        text="Coq theorems about a hand-written Gallina model of sort_by_order/get_order_overriding, for element lists of any "
             "length: the result is a permutation whenever names are distinct and every after/before chain is anchored "
             "(C16_sort_total_permutation), any returned result is a permutation even with cycles (C16_sort_never_loses), "
             "order-valued elements come out ascending and stably (C16_roots_ascending, C16_declaration_order_within_value), "
             "attachment shape, class-level override wins. Tie: correspondence — generated classes (source text) are run "
             "through serialize, both JSON schemas and graphql_schema and the observed key order is compared inside Coq "
             "(vm_compute) with the model on the same element list.",
        note="Trusted: Coq kernel, the hand-written model's faithfulness as validated by the correspondence "
             "(exhaustive over ordering specs for <=2-3 fields in quick, <=3-4 in thorough, plus random classes with "
             "InitVar/init=False/serialized methods/resolvers/class-level overrides/inheritance), the harness' rule for "
             "which elements each view sorts. No axioms.",
        technique="Coq proof (counting argument over the attachment forest) + differential correspondence on 4 views",
        design_ref="DESIGN.md §4 C16",
    ),
}


DESER_NOTE = ("Trusted: Coq kernel; the hand-written model of deserialization/methods.py + __init__.py (coq/Deser/Model.v) whose "
              "faithfulness is checked on every run by differential correspondence (implementation vs model evaluated by vm_compute); "
              "floats restricted to the exact dyadic fragment q/4 (+nan/inf, ints up to 2^53 when converted), regex patterns to literal "
              "prefixes, dict keys to strings; Python's typing introspection / dataclass machinery is exercised (generated source) "
              "but not modelled. Not in the model yet: validators, conversions, flattened / pattern / additional-properties fields, "
              "discriminators, init=False/InitVar fields. No axioms.")

CHECKS.update({
    "C01": dict(
        text="Coq theorem C01_compiled_deserializer_is_the_data_model: for every universe of classes/enums, options (strict), root "
             "schema, type of the modelled grammar at any depth and datum (incl. non-JSON objects), exec(compile t) d agrees with a "
             "declarative specification spec t d (accept <-> conform, value = typed image, never a crash), proved by induction on "
             "fuel/type with one lemma per compiled strategy (check-only methods return the data, SimpleObjectMethod = ObjectMethod "
             "incl. the len(data) != fields_count shortcut, by-class union dispatch, Optional); and, over the table of constraint merge "
             "operations regenerated from constraints.py on every run, constraints given at several levels are merged into their "
             "conjunction (C01_constraint_merge_table_conjoins, C01_merged_levels_accept_the_conjunction). Tie: both model and spec "
             "are evaluated inside Coq on the cases the implementation ran (values with runtime classes, full error lists); "
             "stacked constraints and flattened fields under aliasers are probed on the implementation. Aggregate fields (flattened, "
             "pattern / additional properties): Small/Aggregate.v models the key dispatch, C01_aggregate_fields_receive_the_documented_keys "
             "proves it equal to the documented partition for every class and key set, and every generated class / datum is compared "
             "with the model (where each key went).",
        note=DESER_NOTE, technique="Coq proof (compiler correctness of the method tree vs declarative data model) + differential correspondence",
        design_ref="DESIGN.md §4 C01"),
    "C02": dict(
        text="Coq theorems: the children of the rejection of an object are EXACTLY, in declaration order, the fields whose value is "
             "rejected (under the external name, with that field's own error), the missing required fields, the fields required by "
             "a present one, then the unexpected properties (C02_object_children_exact, C02_object_no_hiding, "
             "C02_missing_required_field_reported); the children of a rejected array are EXACTLY the failing elements under their own index "
             "(C02_array_children_exact / C02_list_rejection_exact), siblings never hide each other, no entry at a valid "
             "location, `errors` lists own messages first then children in sorted key order (insertion sort proved sorted + "
             "permutation). Tie: the FULL errors list of the implementation is compared with the model's on every case; "
             "model-free checks (locs exist, determinism, order, per-element and per-field independence).",
        note=DESER_NOTE, technique="Coq proof (exact characterisation of error bookkeeping) + differential correspondence on full error lists",
        design_ref="DESIGN.md §4 C02"),
    "C03": dict(
        text="Coq theorem C03_never_crashes (strict options): for every datum including objects of non-JSON classes, NaN/inf, "
             "huge ints, at any depth, the compiled tree returns a value or a ValidationError, never a crash; the default coercer "
             "is total (C03_coercer_total). Partial: crash-freedom of whole trees under coerce=True, input mutation and "
             "RecursionError are decided by the correspondence / direct observation of the implementation only.",
        note=DESER_NOTE + " A functional model cannot exhibit in-place mutation nor stack exhaustion.",
        technique="Coq proof (totality / no-crash corollary of the main theorem) + malformed-input differential correspondence",
        design_ref="DESIGN.md §4 C03"),
    "C08": dict(
        text="Coq theorems: two option records differing only by no_copy give the same accepted value / both reject "
             "(C08_no_copy_never_changes_the_result), check-only methods return exactly the data, the data model ignores the "
             "optimisation options. Tie: each case is re-run with no_copy flipped, via the precomputed method and with "
             "override_dataclass_constructors flipped; container identity vs the input is observed; serialization side: "
             "check_type, no_copy, all PassThroughOptions, serialization_method; dataclasses with observable construction "
             "(__post_init__, hand-written __init__, __slots__, __new__, metaclass) under every option combination.",
        note=DESER_NOTE, technique="Coq proof (option-independence of the specification + main theorem) + metamorphic correspondence",
        design_ref="DESIGN.md §4 C08"),
    "C13": dict(
        text="Coq theorems: whatever strategy was compiled (Optional, dispatch by JSON class incl. the int->float fallback, "
             "sequential), a union's outcome is that of the first alternative that does not reject "
             "(C13_union_is_first_accepting_alternative, C13_dispatch_by_class_is_sound). Tie: unions of 2-4 alternatives are "
             "compared with the implementation's own per-alternative outcomes and with the model. Serialization of unions, "
             "discriminators and TaggedUnion are not covered yet.",
        note=DESER_NOTE, technique="Coq proof (strategy equivalence) + metamorphic try-each check + differential correspondence",
        design_ref="DESIGN.md §4 C13"),
    "C14": dict(
        text="Coq theorems against the word table regenerated from coercion.py on every run (C14_table_is_the_documented_one), "
             "coercion only converts primitives to primitives of the expected class, the coerced datum is still checked, refused "
             "coercion = ValidationError; monotonicity proved for primitive types (partial), for every other type by the "
             "strict-vs-coerce correspondence and custom coercer probes.",
        note=DESER_NOTE, technique="Coq proof over regenerated table (translator) + strict/coerce differential correspondence",
        design_ref="DESIGN.md §4 C14"),
})

SER_NOTE = ("Trusted: Coq kernel; the hand-written model of serialization/__init__.py + methods.py (coq/Ser/Model.v) whose faithfulness "
            "is checked on every run by differential correspondence (implementation vs model evaluated by vm_compute) on generated "
            "universes, well-typed and ill-typed values and options; floats restricted to the exact fragment q/4; Dict keys to "
            "str-like types. Not in the model: conversions, flattened fields, discriminators, enums with non-primitive values, "
            "check_type/fall_back_on_any. No axioms.")

CHECKS.update({
    "C04": dict(
        text="Coq theorem C04_compiled_serializer_computes_the_image (Ser/CompileProofs.v): for every universe, options without "
             "pass-through, amount of fuel and well-typed value, the method tree compiled for the type (identity / check-only / "
             "list / dict shortcuts under no_copy, tuples, mappings, Optional and union dispatch by runtime class, enums, Any, "
             "object methods with field strategies, ordering and the simple-object fast path) computes the declarative image "
             "(Ser/Spec.v: typed image, one rule per type, omission rule `omitted`) - same JSON value, or both fail, or both out "
             "of fuel; conditions: unions with pairwise disjoint runtime classes, typed serialized-method results, no TypedDict "
             "additional properties; the `_checked` variant has executable hypotheses, evaluated on every generated case (count in "
             "the evidence). Plus the omission rules per field strategy (C04_field_omitted_iff_rule, C04_method_omission_rule, "
             "C04_typed_dict_field_rule). Tie: correspondence of serialize() with the compiled model (vm_compute on every case), "
             "with the image on well-typed values, and model-free checks (output is JSON data, json.dumps succeeds).",
        note=SER_NOTE, technique="Coq proof (compiler correctness of the serialization method tree vs the declarative image) + differential correspondence serialize vs model vs image",
        design_ref="DESIGN.md §4 C04"),
    "C15": dict(
        text="Coq theorems about a model of fields.py (with_fields_set's __init__/__setattr__ wrappers, set_fields/unset_fields, "
             "dataclasses.replace, deserialization) as a state machine: fields_set after any sequence of operations is exactly the "
             "set the documentation gives (C15 theorems in Props/C15.v, incl. undecorated subclasses overriding __init__), exclude_unset "
             "serializes exactly that set. Tie: random operation histories run on generated classes and on the model (vm_compute).",
        note="Trusted: Coq kernel; model of apischema/fields.py validated by history correspondence; dataclass machinery (replace, "
             "InitVar, __post_init__) exercised, not modelled. No axioms.",
        technique="Coq proof (invariant over operation histories) + history correspondence",
        design_ref="DESIGN.md §4 C15"),
    "C09": dict(
        text="Coq theorems over wiring tables regenerated from the source on every run (which registry mutation / settings "
             "assignment resets the caches, which functions are cached): with the wiring as read from the code no cached result "
             "can be stale after a mutation (C09_never_stale, C09_wiring_table_sound, C09_cached_functions_registered); "
             "C09_never_stale_across_set_size: with the cache objects installed by cache.set_size registered for reset (a fact "
             "read from cache.py, C09_set_size_registers_what_it_installs) answers through any cache object stay fresh after any "
             "history of mutations / resizings / observations; C09_unregistered_resize_refuted. Tie: "
             "translator (ast, fail-closed) + histories of mutations/observations run warm vs cold-start in subprocesses.",
        note="Trusted: Coq kernel; the ast translator harness/tables.py (fail-closed on shapes it does not know); the list of "
             "mutating operations / observations in the history alphabet is hand-written. No axioms.",
        technique="Coq proof over translated wiring + warm/cold history differential",
        design_ref="DESIGN.md §4 C09"),
    "C10": dict(
        text="Coq theorems about a model of validation/validators.py validate() and the gate in ObjectMethod.deserialize: validate "
             "terminates and equals one pass in declaration order with discards (C10_validate_terminates_and_is_one_pass), the gate "
             "is exactly the runnable filter, executed validators all have valid inputs, all runnable validators execute. Tie: "
             "generated classes with validators whose side effects log invocation; log compared with the model (vm_compute).",
        note="Trusted: Coq kernel; model of the validator gate validated by correspondence on generated classes (dependencies read "
             "by apischema's own bytecode analysis are exercised, not modelled). No axioms.",
        technique="Coq proof (termination + gate characterisation) + invocation-log correspondence",
        design_ref="DESIGN.md §4 C10"),
    "C20": dict(
        text="Coq: a model of RecursiveChecker.visit over abstract type graphs and a small-step machine interleaving several checkers "
             "on the shared cache; with analyses serialized (the lock of is_recursive) every sequence of <=3 analyses on every "
             "graph of <=3 nodes leaves a sound, cycle-cutting, complete cache (bounded-exhaustive, bound in the statement), the "
             "locked machine equals the sequential visit, the unlocked interleaving is refuted with a witness, and fill-if-absent "
             "caches of deterministic functions never change later reads (unbounded). Tie: the real recursion cache is compared "
             "with the model on generated class graphs; schedules are explored on the implementation (1 us preemption, injected "
             "yields) and every result compared with a sequential cold run.",
        note="Partial: the theorem covers the recursion-analysis and fill-if-absent logic; CPython thread scheduling, lru_cache "
             "internals and interleavings inside C calls are runtime behaviour the model cannot exhibit and are only sampled by "
             "the schedule exploration. No axioms.",
        technique="Coq proof (bounded-exhaustive + unbounded fill lemma) + model/implementation cache correspondence + schedule exploration",
        design_ref="DESIGN.md §4 C20"),
})

SCHEMA_NOTE = ("Trusted: Coq kernel; Schema/Json.v (hand-written standard semantics of the JSON Schema keywords the builder emits, "
               "compared on every run with the independent validator jsonschema on the implementation's schemas), Schema/Build.v "
               "(hand-written model of json_schema/schema.py + refs.py, compared structurally with the implementation on every "
               "generated type), the JSON -> Gallina schema parser harness/schema_coq.py (fail-closed on unknown keywords). "
               "Annotations (title, default, ...) carry no validation meaning and are not compared. No axioms.")

CHECKS.update({
    "C06": dict(
        text="Coq: JSON Schema AST + standard validation semantics (jvalid), model of the schema builder; theorems: a Literal/Enum "
             "schema accepts exactly the listed values, the schema built for a union (every branch of _visited_union: Any "
             "absorption, merged type lists, null merged into a typed schema, anyOf) accepts exactly the disjunction of the "
             "alternatives' schemas for any definitions and depth, the pre-fix null merge is refuted, and the statement itself "
             "(schema accepts iff the deserialization spec accepts) is proved: for every object-free type "
             "(C06_schema_accepts_iff_deserializer_accepts_object_free), for classes given inline nested to any depth "
             "(..._inline_classes) and for classes given through $ref + $defs, recursive ones included, against the schema and the "
             "definitions the builder emits (..._with_classes: induction on the nesting of objects in the datum; the names C<n> / "
             "E<n> are proved injective); all hypotheses are executable and the run evaluates them on every case (about 90% of the "
             "agreement cases lie inside the theorem, whose conclusion is what agree_case evaluates). dependent_required is inside the class theorems: "
             "C06_dependent_required_keyword_is_the_spec_rule proves the emitted keyword equivalent to the specification's "
             "'required by' rule for every class, aliaser and object. Partial: "
             "reordered fields, fall_back_on_default and a per-call root schema over a class are evaluated case by case; "
             "discriminated unions and classes with flattened / pattern / additional properties fields are probed on the "
             "implementation (three known findings). Tie: builder model = deserialization_schema (structural), jvalid = jsonschema (oracle), "
             "deserialize accepts iff jsonschema validates (model-free), on generated types x data.",
        note=SCHEMA_NOTE + " Common domain: literal start-anchored patterns, no integer-valued float, |int| < 2^1000, uniqueness "
             "of set-typed arrays not compared, no fall_back_on_default.",
        technique="Coq proof (schema = deserializer, incl. nested, referenced and recursive classes; union / literal / constraint lemmas) + three-way correspondence (builder model, validator model, jsonschema oracle)",
        design_ref="DESIGN.md §4 C06"),
    "C17": dict(
        text="Coq theorems on the builder model: every $ref in the schema built for any type (any universe, recursion, options, "
             "reference set) names an extracted reference (C17_refs_are_extracted_names) and the emitted definitions define every "
             "extracted name (C17_extracted_names_are_defined): the document is closed. Tie: the implementation's schema and "
             "definitions equal the model's (extraction rule all_refs / count > 1 / recursion included) on generated universes "
             "with type_name overrides (string, factory, None); model-free checks of termination, $schema, meta-schema validity "
             "in each dialect, $ref resolution under the version prefix, definitions_schema = inline $defs, name collisions "
             "refused, the same names extracted under every version, types reached through the conversion of a serialized method "
             "counted and followed, for deserialization and serialization schemas in the 5 versions.",
        note=SCHEMA_NOTE + " Meta-schema validity is decided by jsonschema.check_schema (trusted oracle). The serialization "
             "builder is covered by the model-free checks only.",
        technique="Coq proof (closedness by induction on the builder) + structural correspondence + meta-schema oracle",
        design_ref="DESIGN.md §4 C17"),
    "C18": dict(
        text="Coq theorems about a model of versions.py over the schema AST, for every schema (any keywords, nesting, recursive "
             "definitions) and every datum: the draft 2019-09 and draft-07 renderings accept exactly the instances of the "
             "2020-12 schema, draft-07 being validated under its own rule that $ref excludes its siblings "
             "(C18_draft_7_same_instances, C18_draft_7_ref_has_no_sibling); OpenAPI 3.1 is the identity. OpenAPI 3.0 "
             "(C18_openapi_3_0_same_instances): the stage-by-stage model of to_open_api_3_0 preserves the instances under the "
             "dialect's own rules (nullable, $ref excluding siblings) for every schema meeting executable side conditions at "
             "every node (nothing dropped, one type keyword, siblings of a moved null accept null), counted on the cases; the "
             "proof exposed two defects of the conversion (list-valued type beside anyOf, const beside enum), repaired, with "
             "the refutation of the old stages kept as a theorem. Tie: convert(model) = implementation output per version; per-dialect "
             "jvalid = jsonschema Draft7 / 2019-09 validators; vocabulary and prefix checks at every nesting level.",
        note=SCHEMA_NOTE + " OpenAPI 3.0 has no independent validator in the sandbox: it is read through the documented mapping "
             "(nullable -> anyOf null).",
        technique="Coq proof (structural induction on schemas, generic preservation lemma) + structural and oracle correspondence",
        design_ref="DESIGN.md §4 C18"),
})

CHECKS.update({
    "C05": dict(
        text="Coq theorem C05_round_trip (Ser/RoundTripInd.v), by induction on the nesting of classes and on the type: for "
             "every universe, options and well-typed canonical value of a type built from primitives, List, Tuple, "
             "Dict[str, X], Literal, Enum, unions whose alternatives accept disjoint classes of JSON data (Optional, ...) and "
             "dataclasses / NamedTuples (recursive included) without skip options serialized in declaration order, the "
             "serialization specification produces JSON that the deserialization specification maps back to that very value; "
             "C05_round_trip_checked states it with executable hypotheses, which the run evaluates on every generated case "
             "(count in the evidence); C05_compiled_models_round_trip chains it with C04 and C01 so that it speaks about the two models "
             "of the code (compiled serializer, compiled deserializer); C05_hypotheses_satisfiable; C05_any_data_round_trip; C05_round_trip_with_symmetric_skips extends it to fields with "
             "skip(serialization_default), none_as_undefined, Undefined unions, any default, exclude_none / exclude_defaults and "
             "reordered fields whenever each omission restores the value left out (executable condition); "
             "C05_aggregate_keys_round_trip: for flattened / pattern / additional properties fields, when no key is claimed by two "
             "sources the key dispatch of deserialization hands each source back exactly the keys serialization merged in "
             "(merged compared with serialize's output keys on every generated class). Partial: sets, "
             "constraints, TypedDict are outside the theorems and checked case by case on the composed models "
             "(roundtrip_case, vm_compute). Tie: model-free round trips on the implementation (direct, through json, and the "
             "dual on accepted data) + model composition on the same values; the two specifications are tied to the "
             "implementation by C01 and C04.",
        note=SER_NOTE + " The bijective fragment (no serialized method, skip(serialization_if), fall_back_on_default, "
             "pass_through, exclude_none, dependent_required, ambiguous unions) is delimited by the generator.",
        technique="Coq proof (round trip by induction on class nesting and type) + model composition evaluated on the cases + metamorphic round trips",
        design_ref="DESIGN.md §4 C05"),
    "C07": dict(
        text="Coq: a model of SerializationSchemaBuilder (Schema/BuildSer.v: properties = fields and serialized methods in order(), "
             "required = what the serializer cannot skip, filtered dependentRequired, reference counting through method return "
             "types), compared structurally with serialization_schema on every generated case. Theorems: "
             "C07_object_free_output_validates (round trip composed with the C06 agreement) and C07_output_validates_with_classes: "
             "for dataclasses / NamedTuples of the round-trip fragment nested to any depth, given inline or through $ref + $defs, the serialization "
             "specification produces JSON that validates against the schema and definitions of that model (instance of the image "
             "invariant theorem, Ser/ImageInv.v); C07_required_field_never_omitted and C07_required_keys_always_emitted_and_emitted_keys_declared "
             "(every class, option and default kind: the builder's required rule against the serializer's omission rule); "
             "C07_output_validates_under_every_serialization_option (inline classes with any skip option, exclude_* setting, "
             "order and primitive serialized methods: the image invariant for objects holding a subset of their properties); "
             "executable hypotheses counted on the cases. Partial: classes with skip options, "
             "exclude_* settings or serialized methods are covered by the oracle only: every serialize output "
             "is validated with jsonschema against serialization_schema generated under the same global settings, and the Coq "
             "validator model jvalid is compared with jsonschema on the same pairs.",
        note=SCHEMA_NOTE + " The oracle for validity is jsonschema (Draft 2020-12).",
        technique="Coq proof (image invariant instantiated with validity against the modelled serialization schema) + structural correspondence of the builder model + jsonschema oracle",
        design_ref="DESIGN.md §4 C07"),
    "C11": dict(
        text="Coq model of the external name (alias metadata, class aliaser with override=False exemptions, dynamic aliaser; "
             "to_camel_case modelled character by character) with theorems: required names are property names, override=False "
             "exempts from the class aliaser only, injective aliasers keep distinct names. Tie: 8 views observed on the "
             "implementation (keys consumed by deserialize, produced by serialize, properties / required / dependentRequired of "
             "both schemas, error locations incl. nested and validator-yielded aliases, GraphQL field names) compared inside Coq "
             "with the model on generated classes x class aliaser x dynamic aliaser (per call, settings.aliaser, camel_case).",
        note="Trusted: Coq kernel; Small/Names.v validated by the correspondence; GraphQL names compared only when valid GraphQL "
             "names; flattened fields and GraphQL argument names are covered by C19 / not generated here. No axioms.",
        technique="Coq model of the naming function + correspondence over 8 views",
        design_ref="DESIGN.md §4 C11"),
    "C12": dict(
        text="Coq model of conversion resolution and execution (dynamic vs registered, propagation through collections and "
             "unions, not into object fields, field-level conversions, identity, single / union / catch_value_error methods, "
             "compile-time Unsupported) with theorems: one deserializer = composition f o deserialize(S), registration order, "
             "first accepting deserializer wins, dynamic conversions stop at object fields and reach union alternatives, "
             "identity bypasses a registered conversion. Tie: generated worlds of opaque classes with tagging converters; the "
             "implementation's result is compared as a term with the model (vm_compute); schema of converted types vs "
             "acceptance (jsonschema); serializers: serialize(T, v) = serialize(U, g(v)), inherited by subclasses in the four "
             "registration styles; generic deserializers S[T] -> W[T] with T at any depth of S.",
        note="Trusted: Coq kernel; Small/Conv.v validated by the correspondence (3600 cases per quick run); sub_conversion, generic "
             "and lazy conversions, and the JSON schema merge with the target's annotations are not modelled. No axioms.",
        technique="Coq model + equational theorems + term-level correspondence with tagging converters",
        design_ref="DESIGN.md §4 C12"),
    "C19": dict(
        text="Coq model of the GraphQL type mapping (named type, list, non-null for output fields and arguments) with theorems: "
             "an output field is non-null iff its type is neither Optional nor a union with Undefined; an argument is non-null "
             "iff moreover it is required or has a serializable default. Tie: printed GraphQL types of every field / argument "
             "compared with the model; graphql-core validation, introspection, print_schema; a query selecting every field vs "
             "the expected data (enums by name, Undefined as null, no omission); arguments valid / omitted / invalid: resolver "
             "invoked with the deserialized values or not invoked with a GraphQL error.",
        note="Trusted: Coq kernel; graphql-core as validator and executor; Small/Gql.v validated by the correspondence; "
             "interfaces, unions of objects, relay, id_types, flattened fields, subscriptions, error_handler are not generated. "
             "Partial: execution equality is explored, not proved. No axioms.",
        technique="Coq model of the type mapping + correspondence + execution / argument exploration with graphql-core",
        design_ref="DESIGN.md §4 C19"),
})

NOT_YET = {}


def main():
    props = [json.loads(l) for l in open(os.path.join(ROOT, "properties.jsonl"))]
    checks, na = [], []
    for p in props:
        pid = p["id"]
        if pid in CHECKS:
            c = CHECKS[pid]
            checks.append(dict(
                property_id=pid,
                quick_cmd=f"./vcheck {pid} --tier quick",
                thorough_cmd=f"./vcheck {pid} --tier thorough",
                evidence_file=f"/verif/evidence/{pid}.json",
                replay_cmd_template="./vcheck replay {path}",
                engine="coq+correspondence",
                level_claimed=dict(category=c.get("category", "proof"), text=c["text"], design_ref=c["design_ref"]),
                level_note=c["note"],
                technique=c["technique"],
            ))
        else:
            na.append(dict(property_id=pid, reason=NOT_YET.get(pid, "check not built yet in this session (work in progress; see DESIGN.md §4)")))
    m = dict(
        version=1,
        setup_cmd="./vcheck setup",
        hooks=dict(guard="APISCHEMA_VERIF", enable="no source hooks are needed; checks drive the public API of the working tree (PYTHONPATH=/repo)",
                   baseline_off_cmd="cd /repo && /venv/bin/python -m pytest -ra -q -p no:cacheprovider --timeout=900 --continue-on-collection-errors",
                   source_commits=[], add_only=True),
        engines=[dict(name="coq+correspondence", path="/verif/vcheck", serves_properties=sorted(CHECKS),
                      kind_free_text="Coq 8.16 development under /verif/coq (models, specs, theorems); Python harness generates cases, "
                                     "runs the implementation and evaluates model/spec inside Coq with vm_compute")],
        checks=checks,
        notes="Genuine defects found are repaired by unguarded 'fix:' commits in /repo and listed in /verif/known_findings.json.",
        not_applicable=na,
    )
    json.dump(m, open(os.path.join(ROOT, "MANIFEST.json"), "w"), indent=1)


if __name__ == "__main__":
    main()
