"""Generators (universes, types, data, options) and the implementation observer for deserialization."""
import copy
import math

from harness import pyrun
from harness.core import coq_str, coq_list, coq_bool
from harness.descr import (Other, ty_src, ty_coq, universe_src, universe_coq, data_coq, data_real, value_coq,
                           errors_coq, con_opt_coq, field_decl_order)

NONE = ("none",)
PRIMS = [("none",), ("bool",), ("int",), ("float",), ("str",)]

ATOMS = [None, True, False, 0, 1, -1, 2, 3, 7, 10 ** 20, 10 ** 400, 0.0, 1.0, 1.5, -0.5, 2.25, float("nan"), float("inf"),
         "", "a", "ab", "abc", "1", "12", "-3", "1.5", "true", "YES", "No", "maybe", " ", [], {}]
OTHERS = [Other("tuple"), Other("bytes"), Other("set"), Other("object")]
STR_POOL = ["", "a", "ab", "abc", "b", "1", "12", "-3", "1.5", "0.25", "true", "YES", "No", "off", "maybe", " "]
FIELD_NAMES = ["a", "b", "c", "d", "e"]
ALIASES = ["A", "bb", "x_y", "camelCase", "a"]


# ------------------------------------------------------------------ universes and types
def gen_constraints(rng, base):
    """constraints applicable to the base kind, inside the modelled fragment"""
    c = {}
    if base in ("int", "float"):
        r = rng.random()
        if r < 0.5:
            c["min"] = rng.choice([0, 1, -1, 2]) if base == "int" else rng.choice([0, 1, 0.5, -1.5])
        if rng.random() < 0.4:
            c["max"] = rng.choice([2, 3, 10]) if base == "int" else rng.choice([2, 2.5, 10])
        if rng.random() < 0.2:
            c["exc_min"] = rng.choice([0, 1])
        if rng.random() < 0.2:
            c["exc_max"] = rng.choice([3, 5])
        if rng.random() < 0.25:
            c["mult_of"] = rng.choice([2, 3]) if base == "int" else rng.choice([2, 0.5])
    elif base == "str":
        if rng.random() < 0.5:
            c["min_len"] = rng.choice([0, 1, 2])
        if rng.random() < 0.4:
            c["max_len"] = rng.choice([1, 2, 3])
        if rng.random() < 0.3:
            c["pattern"] = rng.choice(["a", "ab", "1"])
    elif base == "list":
        if rng.random() < 0.5:
            c["min_items"] = rng.choice([0, 1, 2])
        if rng.random() < 0.4:
            c["max_items"] = rng.choice([1, 2, 3])
        if rng.random() < 0.3:
            c["unique"] = True
    elif base == "dict":
        if rng.random() < 0.5:
            c["min_props"] = rng.choice([0, 1, 2])
        if rng.random() < 0.4:
            c["max_props"] = rng.choice([1, 2, 3])
    elif base == "any":
        for b in ("int", "str", "list", "dict"):
            if rng.random() < 0.3:
                c.update(gen_constraints(rng, b) or {})
    return c or None


def base_kind(t):
    k = t[0]
    if k in ("int", "float", "str", "any"):
        return k
    if k in ("coll", "tuple"):
        return "list"
    if k in ("map", "obj"):
        return "dict"
    if k == "con":
        return base_kind(t[2])
    return None


def has_special(t):
    """does the type already carry a mult_of / pattern constraint (never merged twice)"""
    if t[0] == "con":
        return bool(t[1].get("mult_of") or t[1].get("pattern")) or has_special(t[2])
    if t[0] == "union":
        return any(has_special(x) for x in t[1])
    return False


def normalize_type(t):
    """typing flattens nested Unions and removes duplicated alternatives: the descriptor is put in that form, so that the
    Python type and the Gallina term describe the same alternatives"""
    k = t[0]
    if k == "union":
        alts = []
        for a in t[1]:
            a = normalize_type(a)
            for b in (a[1] if a[0] == "union" else [a]):
                if repr(b) not in [repr(x) for x in alts]:
                    alts.append(b)
        return alts[0] if len(alts) == 1 else ("union", alts)
    if k == "coll":
        return ("coll", t[1], normalize_type(t[2]))
    if k == "con":
        return ("con", t[1], normalize_type(t[2]))
    if k == "tuple":
        return ("tuple", [normalize_type(a) for a in t[1]])
    if k == "map":
        return ("map", normalize_type(t[1]), normalize_type(t[2]))
    return t


def gen_type(rng, u, depth, hashable=False, key=False):
    return normalize_type(_gen_type(rng, u, depth, hashable, key))


def _gen_type(rng, u, depth, hashable=False, key=False):
    """hashable: only types whose values can be set members; key: types usable as mapping keys (string data)"""
    ncls, nen = len(u["classes"]), len(u["enums"])
    if key:
        r = rng.random()
        if r < 0.6:
            return ("str",)
        if r < 0.75:
            return ("con", {"min_len": 1}, ("str",)) if rng.random() < 0.5 else ("con", {"pattern": "a"}, ("str",))
        if r < 0.85:
            return ("lit", ["a", "b"])
        if r < 0.93:
            return ("int",)   # only deserializable with coercion
        return ("any",)
    choices = ["prim"] * 6 + ["lit", "enum" if nen else "lit"]
    if not hashable:
        choices += ["any"] * 1
    if depth > 0:
        choices += ["union"] * 3 + ["con"] * 2 + ["tuple"] * 2 + ["coll_h"] * 2
        if not hashable:
            choices += ["coll"] * 3 + ["map"] * 2 + (["obj"] * 4 if ncls else [])
    k = rng.choice(choices)
    if k == "prim":
        return rng.choice(PRIMS)
    if k == "any":
        return ("any",)
    if k == "lit":
        pool = [[1, 2], ["a"], ["a", "b"], [1, "a", None], [True, "x"], [0], [None]]
        return ("lit", rng.choice(pool))
    if k == "enum":
        return ("enum", rng.randrange(nen))
    if k == "coll":
        kind = rng.choice(["list", "list", "list", "sequence", "collection", "set", "abstractset", "frozenset", "vartuple"])
        elt = gen_type(rng, u, depth - 1, hashable=kind in ("set", "frozenset", "abstractset"))
        return ("coll", kind, elt)
    if k == "coll_h":
        kind = rng.choice(["frozenset", "vartuple"])
        return ("coll", kind, gen_type(rng, u, depth - 1, hashable=True))
    if k == "tuple":
        n = rng.choice([0, 1, 2, 2, 3])
        return ("tuple", [gen_type(rng, u, depth - 1, hashable=hashable) for _ in range(n)])
    if k == "map":
        return ("map", gen_type(rng, u, 0, key=True), gen_type(rng, u, depth - 1))
    if k == "obj":
        t = ("obj", rng.randrange(ncls))
        if rng.random() < 0.25:
            t = ("con", gen_constraints(rng, "dict") or {"max_props": 2}, t)
        return t
    if k == "con":
        t = gen_type(rng, u, depth - 1, hashable=hashable)
        b = base_kind(t)
        if b is None:
            return t
        c = gen_constraints(rng, b)
        if c is None:
            return t
        if has_special(t):
            c.pop("mult_of", None)
            c.pop("pattern", None)
        if not c:
            return t
        return ("con", c, t)
    if k == "union":
        n = rng.choice([2, 2, 2, 3, 4])
        alts = []
        for _ in range(n):
            a = gen_type(rng, u, depth - 1, hashable=hashable)
            if a[0] == "union":
                for x in a[1]:
                    if x not in alts:
                        alts.append(x)
            elif a not in alts:
                alts.append(a)
        if rng.random() < 0.4 and NONE not in alts:
            alts.append(NONE)
        if len(alts) == 1:
            return alts[0]
        return ("union", alts)
    raise AssertionError(k)


def gen_default(rng):
    return rng.choice([("none",), ("int", 0), ("int", 5), ("str", "dflt"), ("bool", True), ("float", 1.5), ("emptylist",)])


def default_for(rng, t):
    """a default value descriptor that conforms to the type, or None when the grammar of defaults has none"""
    k = t[0]
    if k == "none":
        return ("none",)
    if k == "int":
        return ("int", rng.choice([0, 5]))
    if k == "float":
        return ("float", 1.5)
    if k == "str":
        return ("str", rng.choice(["dflt", ""]))
    if k == "bool":
        return ("bool", True)
    if k == "any":
        return rng.choice([("none",), ("int", 0), ("str", "dflt")])
    if k == "coll" and t[1] == "list":
        return ("emptylist",)
    if k == "con":
        return None
    if k == "union":
        for a in t[1]:
            d = default_for(rng, a)
            if d is not None and a[0] != "con":
                return d
    return None


def gen_universe(rng, ncls=None, typed_defaults=False):
    u = {"classes": [], "enums": []}
    for _ in range(rng.choice([0, 1, 1, 2])):
        u["enums"].append(rng.choice([[1, 2], ["a", "b"], [1, "x"], [0, 1, 2], ["a"], [True, 2]]))
    n = rng.choice([0, 1, 2, 2, 3]) if ncls is None else ncls
    u["classes"] = [{"kind": "dataclass", "fields": [], "depreq": []} for _ in range(n)]
    for cid in range(n):
        kind = rng.choice(["dataclass"] * 5 + ["namedtuple", "typeddict", "typeddict"])
        nf = rng.choice([0, 1, 2, 2, 3, 3, 4])
        names = FIELD_NAMES[:nf]
        fields = []
        used_alias = set()
        simple = rng.random() < 0.3     # only check-only, un-aliased fields: the SimpleObjectMethod fast path
        for nm in names:
            required = rng.random() < 0.5
            # references to classes (recursion included) only below Optional / list or with a default
            if simple:
                t = rng.choice([("int",), ("str",), ("bool",), ("none",), ("union", [("int",), NONE]),
                                ("coll", "list", ("int",)), ("union", [("str",), ("int",)])])
            else:
                t = gen_type(rng, u, rng.choice([0, 1, 1, 2]))
            t = normalize_type(guard_recursion(t))
            f = {"name": nm, "alias": nm, "ty": t, "required": required, "default": gen_default(rng),
                 "fallback": False, "con": None}
            if typed_defaults and not required:
                d = default_for(rng, t)
                if d is None or (d == ("emptylist",) and kind == "namedtuple"):
                    f["required"] = True
                else:
                    f["default"] = d
            if kind == "namedtuple" and not required and f["default"][0] == "emptylist":
                f["default"] = ("none",)
            if rng.random() < 0.3 and not simple:
                al = rng.choice(ALIASES)
                if al not in used_alias and al not in names:
                    f["alias"] = al
            used_alias.add(f["alias"])
            if kind == "dataclass" and not required and rng.random() < 0.25:
                f["fallback"] = True
            if rng.random() < 0.2 and kind == "dataclass":
                b = base_kind(t)
                if b and not has_special(t):
                    f["con"] = gen_constraints(rng, b)
            fields.append(f)
        if kind in ("namedtuple", "dataclass"):
            # fields without default cannot follow fields with default
            fields.sort(key=lambda f: not f["required"])
        depreq = []
        if kind == "dataclass" and len(fields) >= 2 and rng.random() < 0.3:
            opt = [f["name"] for f in fields if not f["required"]]
            if opt:
                src = rng.choice([f["name"] for f in fields])
                tgt = rng.choice(opt)
                if src != tgt:
                    depreq.append((src, [tgt]))
        u["classes"][cid] = {"kind": kind, "fields": fields, "depreq": depreq}
    return u


def guard_recursion(t):
    """an object reference at a required position would make some classes uninhabited: put it under Optional"""
    if t[0] == "obj":
        return ("union", [t, NONE])
    if t[0] == "tuple":
        return ("tuple", [guard_recursion(x) for x in t[1]])
    if t[0] == "con":
        return ("con", t[1], guard_recursion(t[2])) if t[2][0] != "obj" else ("union", [t, NONE])
    if t[0] == "union":
        if NONE in t[1]:
            return t
        return ("union", [guard_recursion(x) if x[0] != "obj" else x for x in t[1]] + [NONE]) \
            if any(x[0] == "obj" for x in t[1]) else t
    return t


# ------------------------------------------------------------------ data
def gen_valid(rng, u, t, depth, opts):
    """a datum meant to conform (best effort; conformance is decided by model / implementation, not here)"""
    k = t[0]
    if k == "none":
        return None
    if k == "bool":
        return rng.choice([True, False])
    if k == "int":
        return rng.choice([0, 1, 2, 3, -1, 7])
    if k == "float":
        return rng.choice([0.0, 1.0, 1.5, 2.25, -0.5, 1, 2])
    if k == "str":
        return rng.choice(["a", "ab", "abc", "", "1"])
    if k == "any":
        return rng.choice(ATOMS[:20] + [[1, "a"], {"k": 1}])
    if k == "lit":
        return rng.choice(t[1])
    if k == "enum":
        return rng.choice(u["enums"][t[1]])
    if k == "coll":
        n = rng.choice([0, 1, 2, 2, 3]) if depth > 0 else 0
        return [gen_valid(rng, u, t[2], depth - 1, opts) for _ in range(n)]
    if k == "tuple":
        return [gen_valid(rng, u, x, depth - 1, opts) for x in t[1]]
    if k == "map":
        n = rng.choice([0, 1, 2, 3]) if depth > 0 else 0
        out = {}
        for _ in range(n):
            kt = t[1]
            kk = gen_valid(rng, u, kt, 0, opts)
            if not isinstance(kk, str):
                kk = rng.choice(["a", "b", "1", "12"])
            out[kk] = gen_valid(rng, u, t[2], depth - 1, opts)
        return out
    if k == "con":
        d = gen_valid(rng, u, t[2], depth, opts)
        c = t[1]
        if isinstance(d, (int, float)) and not isinstance(d, bool):
            if c.get("min") is not None and d < c["min"]:
                d = c["min"]
            if c.get("max") is not None and d > c["max"]:
                d = c["max"]
        if isinstance(d, str) and c.get("pattern") and not d.startswith(c["pattern"]):
            d = c["pattern"] + d
        return d
    if k == "union":
        if depth <= 0 and NONE in t[1]:
            return None
        return gen_valid(rng, u, rng.choice(t[1]), depth - 1 if depth <= 0 else depth, opts)
    if k == "obj":
        c = u["classes"][t[1]]
        out = {}
        al = opts["alias_fn"]
        for f in c["fields"]:
            if f["required"] or rng.random() < 0.6:
                if depth <= 0 and not f["required"]:
                    continue
                out[al(f["alias"])] = gen_valid(rng, u, f["ty"], depth - 1, opts)
        if rng.random() < 0.1:
            out["extra"] = 1
        return out
    raise AssertionError(t)


def invalid_for(rng, t):
    """a datum of a JSON class the type cannot accept (best effort)"""
    k = t[0]
    pool = {"none": [1, "a"], "bool": [1, None, "true"], "int": ["1", 1.5, None, True], "float": ["1.5", None, True],
            "str": [1, None, []], "coll": [{}, 1, "a"], "tuple": [{}, 1], "map": [[], 1], "obj": [[], 1, "a"],
            "lit": ["zz", 99, [], 1.5], "enum": ["zz", 99, {}], "any": [Other("object")]}
    if k == "con":
        return invalid_for(rng, t[2])
    if k == "union":
        return rng.choice([Other("tuple"), {"zz": 1}, [[]]])
    return rng.choice(pool.get(k, [Other("object")]))


def object_matrix(rng, u, cid, opts, limit=40):
    """data for class cid where every field is independently absent / valid / invalid, plus an optional extra key"""
    import itertools
    c = u["classes"][cid]
    al = opts["alias_fn"]
    fs = c["fields"]
    combos = list(itertools.product("avi", repeat=len(fs)))
    if len(combos) > limit:
        combos = rng.sample(combos, limit)
    out = []
    for combo in combos:
        d = {}
        for f, st in zip(fs, combo):
            if st == "v":
                d[al(f["alias"])] = gen_valid(rng, u, f["ty"], 2, opts)
            elif st == "i":
                d[al(f["alias"])] = invalid_for(rng, f["ty"])
        r = rng.random()
        if r < 0.15:
            d["extra"] = 1
        elif r < 0.25 and fs:
            d[fs[0]["name"] + "_"] = None
        out.append(d)
    return out


def mutate(rng, d, depth=0):
    """one local mutation somewhere in the datum"""
    if isinstance(d, list) and d and rng.random() < 0.7:
        i = rng.randrange(len(d))
        r = rng.random()
        if r < 0.6:
            return d[:i] + [mutate(rng, d[i], depth + 1)] + d[i + 1:]
        if r < 0.75:
            return d[:i] + d[i + 1:]
        if r < 0.9:
            return d + [rng.choice(ATOMS)]
        return d[:i] + [d[i]] + d[i:]
    if isinstance(d, dict) and d and rng.random() < 0.75:
        keys = list(d)
        kk = rng.choice(keys)
        r = rng.random()
        if r < 0.55:
            return {k: (mutate(rng, v, depth + 1) if k == kk else v) for k, v in d.items()}
        if r < 0.75:
            return {k: v for k, v in d.items() if k != kk}
        if r < 0.9:
            out = dict(d)
            out[rng.choice(["extra", "zz", "a", "b", "A", "p_a"])] = rng.choice(ATOMS)
            return out
        return {(k if k != kk else rng.choice(["zz", "b", "A"])): v for k, v in d.items()}
    r = rng.random()
    if r < 0.08:
        return rng.choice(OTHERS)
    if isinstance(d, bool):
        return rng.choice([int(d), None, "true", 1.0])
    if isinstance(d, int):
        return rng.choice([d + 1, d - 1, float(d) if abs(d) < 2 ** 50 else 1.5, str(d) if abs(d) < 10 ** 6 else 'x', bool(d % 2), None, 10 ** 20])
    if isinstance(d, float) and not math.isnan(d) and not math.isinf(d):
        return rng.choice([d + 0.25, int(d), str(d) if d * 4 == int(d * 4) and abs(d) < 100 else "x", None, float("nan")])
    if isinstance(d, str):
        return rng.choice([d + "a", d[:-1], 1, None, rng.choice(STR_POOL)])
    return rng.choice(ATOMS)


def mentions_float(t, u, seen=None):
    seen = set() if seen is None else seen
    k = t[0]
    if k == "float":
        return True
    if k in ("coll", "con"):
        return mentions_float(t[2], u, seen)
    if k in ("tuple", "union"):
        return any(mentions_float(x, u, seen) for x in t[1])
    if k == "map":
        return mentions_float(t[1], u, seen) or mentions_float(t[2], u, seen)
    if k == "obj":
        if t[1] in seen:
            return False
        seen.add(t[1])
        return any(mentions_float(f["ty"], u, seen) for f in u["classes"][t[1]]["fields"])
    return False


def count_nan(d):
    if isinstance(d, float):
        return 1 if math.isnan(d) else 0
    if isinstance(d, list):
        return sum(count_nan(x) for x in d)
    if isinstance(d, dict):
        return sum(count_nan(v) for v in d.values())
    return 0


def mentions_set(t, u, seen=None):
    seen = set() if seen is None else seen
    k = t[0]
    if k == "any":
        return False
    if k == "coll":
        return t[1] in ("set", "frozenset", "abstractset") or mentions_set(t[2], u, seen)
    if k == "con":
        return mentions_set(t[2], u, seen)
    if k in ("tuple", "union"):
        return any(mentions_set(x, u, seen) for x in t[1])
    if k == "map":
        return mentions_set(t[1], u, seen) or mentions_set(t[2], u, seen)
    if k == "obj":
        if t[1] in seen:
            return False
        seen.add(t[1])
        return any(mentions_set(f["ty"], u, seen) for f in u["classes"][t[1]]["fields"])
    return False


def mentions_unique(t, u, root=None, seen=None):
    """is a `unique` (uniqueItems) constraint attached to the root or to a position of the type"""
    if root and root.get("unique"):
        return True
    seen = set() if seen is None else seen
    k = t[0]
    if k == "coll":
        return mentions_unique(t[2], u, None, seen)
    if k == "con":
        return bool(isinstance(t[1], dict) and t[1].get("unique")) or mentions_unique(t[2], u, None, seen)
    if k in ("tuple", "union"):
        return any(mentions_unique(x, u, None, seen) for x in t[1])
    if k == "map":
        return mentions_unique(t[1], u, None, seen) or mentions_unique(t[2], u, None, seen)
    if k == "obj":
        if t[1] in seen:
            return False
        seen.add(t[1])
        return any(bool(f.get("con") and f["con"].get("unique")) or mentions_unique(f["ty"], u, None, seen)
                   for f in u["classes"][t[1]]["fields"])
    return False


def has_inexact_int(d):
    """an int that float() rounds (beyond 2^53): the model's floats are exact rationals q/4, so the int -> float conversion of
    such a datum is outside the modelled fragment"""
    if isinstance(d, bool) or isinstance(d, Other):
        return False
    if isinstance(d, int):
        try:
            return abs(d) > 2 ** 53 and int(float(d)) != d
        except OverflowError:
            return False          # too large for a float: rejected by both sides
    if isinstance(d, list):
        return any(has_inexact_int(x) for x in d)
    if isinstance(d, dict):
        return any(has_inexact_int(v) for v in d.values())
    return False


def in_fragment(d):
    """floats must be quarter multiples (or nan / inf); strings ASCII"""
    if isinstance(d, Other):
        return True
    if isinstance(d, float):
        return math.isnan(d) or math.isinf(d) or (d * 4 == int(d * 4) and abs(d) < 2 ** 60)
    if isinstance(d, list):
        return all(in_fragment(x) for x in d)
    if isinstance(d, dict):
        return all(isinstance(k, str) and in_fragment(v) for k, v in d.items())
    if isinstance(d, str):
        return all(32 <= ord(c) < 127 for c in d)
    return True


# ------------------------------------------------------------------ options
def alias_id(s):
    return s


def alias_prefix(s):
    return "p_" + s


ALIASERS = {"id": (alias_id, "al_id"), "prefix": (alias_prefix, "al_p")}


def gen_opts(rng, coerce=None):
    return {"additional_properties": rng.random() < 0.3,
            "coerce": (rng.random() < 0.3) if coerce is None else coerce,
            "fall_back_on_default": rng.random() < 0.2,
            "no_copy": rng.random() < 0.6,
            "aliaser": rng.choice(["id", "id", "prefix"])}


def opts_coq(o):
    return (f"(mkO {coq_bool(o['additional_properties'])} {coq_bool(o['coerce'])} {coq_bool(o['fall_back_on_default'])} "
            f"{coq_bool(o['no_copy'])} {ALIASERS[o['aliaser']][1]})")


def opts_kwargs(o):
    return dict(additional_properties=o["additional_properties"], coerce=o["coerce"],
                fall_back_on_default=o["fall_back_on_default"], no_copy=o["no_copy"],
                aliaser=ALIASERS[o["aliaser"]][0])


HEADER = """From Coq Require Import List String ZArith Bool.
From AV Require Import Core.Json Core.Errors Core.Text Core.Util Deser.Model Deser.Run Deser.Spec.
Import ListNotations.
Open Scope string_scope.
Definition al_id : string -> string := fun s => s.
Definition al_p : string -> string := fun s => "p_" ++ s.
"""


# ------------------------------------------------------------------ running the implementation
def clear_typing_caches():
    """typing memoises its subscriptions with keys compared by ==, and Union[A, B] == Union[B, A], Literal[1, 'a'] ==
    Literal['a', 1]: building Dict[str, Union[A, B]] after Dict[str, Union[B, A]] returns the *earlier* object, whose
    alternatives are in the other order.  The caches are emptied before each universe / type is materialised, and equal
    unions / literals of one universe are given one order (canon_type), so that the Python type is the one the descriptor
    (and the Gallina term) describes."""
    import typing
    for f in getattr(typing, "_cleanups", []):
        try:
            f()
        except Exception:   # noqa
            pass


def canon_type(t, reg):
    """one order per set of alternatives / literal values within a universe (first seen wins)"""
    k = t[0]
    if k == "union":
        alts = [canon_type(a, reg) for a in t[1]]
        key = ("U", frozenset(repr(a) for a in alts))
        if key in reg:
            order = reg[key]
            alts = sorted(alts, key=lambda a: order.index(repr(a)))
        else:
            reg[key] = [repr(a) for a in alts]
        return ("union", alts)
    if k == "lit":
        vals = list(t[1])
        key = ("L", frozenset((type(v).__name__, repr(v)) for v in vals))
        if key in reg:
            order = reg[key]
            vals = sorted(vals, key=lambda v: order.index((type(v).__name__, repr(v))))
        else:
            reg[key] = [(type(v).__name__, repr(v)) for v in vals]
        return ("lit", vals)
    if k == "coll":
        return ("coll", t[1], canon_type(t[2], reg))
    if k == "con":
        return ("con", t[1], canon_type(t[2], reg))
    if k == "tuple":
        return ("tuple", [canon_type(a, reg) for a in t[1]])
    if k == "map":
        return ("map", canon_type(t[1], reg), canon_type(t[2], reg))
    return t


def canon_universe(u):
    reg = {}
    for cl in u["classes"]:
        for f in cl["fields"]:
            f["ty"] = canon_type(f["ty"], reg)
        for m in cl.get("methods", []):
            m["ty"] = canon_type(m["ty"], reg)
    return reg


class Universe:
    """a materialised universe: real Python classes in a fresh module"""

    def __init__(self, u, spell=0):
        self.u = u
        self.spell = spell
        self.registry = canon_universe(u)
        self.src = universe_src(u, spell)
        clear_typing_caches()
        self.mod = pyrun.exec_module(self.src)
        self._types = {}

    def canon(self, t):
        return canon_type(t, self.registry)

    def type(self, t):
        s = ty_src(t, self.spell, quote=False)
        if s not in self._types:
            clear_typing_caches()
            self._types[s] = eval(s, self.mod.__dict__)
        return self._types[s]

    def close(self):
        pyrun.drop_module(self.mod)


def observe(U, t, data, opts, root=None):
    """returns (kind, payload, extra) with kind in ok / err / crash"""
    pyrun.ensure_repo_on_path()
    from apischema import deserialize, ValidationError, schema
    tp = U.type(t)
    real = data_real(data)
    before = copy.deepcopy(real) if not has_other(data) else None
    kw = opts_kwargs(opts)
    if root is not None:
        kw["schema"] = eval(__import__("harness.descr", fromlist=["con_src"]).con_src(root), {"schema": schema})
    extra = {}
    try:
        v = deserialize(tp, real, **kw)
        out = ("ok", v)
    except ValidationError as e:
        try:
            out = ("err", e.errors)
        except Exception as e2:  # errors not computable
            out = ("crash", f"errors:{type(e2).__name__}")
    except RecursionError:
        out = ("crash", "RecursionError")
    except Exception as e:
        out = ("crash", type(e).__name__)
    if before is not None:
        extra["mutated"] = not same_data(before, real)
    return out[0], out[1], extra


def has_other(d):
    if isinstance(d, Other):
        return True
    if isinstance(d, list):
        return any(has_other(x) for x in d)
    if isinstance(d, dict):
        return any(has_other(v) for v in d.values())
    return False


def same_data(a, b):
    if type(a) is not type(b):
        return False
    if isinstance(a, float):
        return (math.isnan(a) and math.isnan(b)) or a == b
    if isinstance(a, list):
        return len(a) == len(b) and all(same_data(x, y) for x, y in zip(a, b))
    if isinstance(a, dict):
        return list(a) == list(b) and all(same_data(a[k], b[k]) for k in a)
    return a == b


def obs_coq(kind, payload, U):
    if kind == "ok":
        return f"(IOk {value_coq(payload, U.mod)})"
    if kind == "err":
        return f"(IErr {errors_coq(payload)})"
    return f"(ICrash {coq_str(str(payload))})"


def case_coq(uname, opts, root, t, data, obs):
    return f"({uname}, {opts_coq(opts)}, {con_opt_coq(root)}, {ty_coq(t)}, {data_coq(data)}, {obs})"


CASE_TYPE = "univ * dopts * option constraints * ty * pyval * obs"
